"""A user's own module that happens to define a sample type with the SAME CLASS NAME as a shipped one
(`SparseDrugComboMCMCSample`): same parameters, another link function. Used by C10: a collection is reloaded as
the class it was saved from (module AND name), whichever other classes of that name are loaded."""
import numpy as np

from batchie.models.sparse_combo import SparseDrugComboMCMCSample as _Shipped


class SparseDrugComboMCMCSample(_Shipped.__mro__[1]):  # derives from batchie.core.Theta directly, not from the shipped class
    def __init__(self, W, W0, V2, V1, V0, alpha, precision):
        self.W, self.W0, self.V2, self.V1, self.V0, self.alpha, self.precision = W, W0, V2, V1, V0, alpha, precision

    def _shipped(self):
        return _Shipped(W=self.W, W0=self.W0, V2=self.V2, V1=self.V1, V0=self.V0, alpha=self.alpha, precision=self.precision)

    def predict_conditional_mean(self, data):
        return 0.5 * np.asarray(self._shipped().predict_conditional_mean(data))

    def predict_viability(self, data):
        return np.clip(np.exp(-np.abs(self.predict_conditional_mean(data))), 0.01, 0.99)

    def predict_conditional_variance(self, data):
        return np.repeat(2.0 / self.precision, data.size)

    def private_parameters_dict(self):
        return self._shipped().private_parameters_dict()

    def shared_parameters_dict(self):
        return self._shipped().shared_parameters_dict()

    @classmethod
    def from_dicts(cls, private_params, shared_params):
        s = _Shipped.from_dicts(private_params, shared_params)
        return cls(W=s.W, W0=s.W0, V2=s.V2, V1=s.V1, V0=s.V0, alpha=s.alpha, precision=s.precision)
