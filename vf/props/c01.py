"""C01 - screen identifiers are a faithful, dense encoding of names and doses."""
import os
import subprocess
import sys

import numpy as np

from .. import kit, gen, invariants
from ..oracles import encoding

PROP, NUM = "C01", 1
LEVEL = "exploration"
SHARDS = {"quick": 8, "thorough": 16}
TIMEOUT = {"quick": 900, "thorough": 5400}
RULE = (
    "seeded hostile constructor arguments (names incl. '', control name in any column, case/blank variants, "
    "non-ASCII; doses incl. 0, -0.0, negative, subnormal, repeats; arity 1-3; control-by-name and by-dose mixed); "
    "half of the cases re-construct a row subset with the superset screen's own mappings; rejection cases remove a "
    "used mapping row or open a gap. Oracle = pure-Python dict model over (name, dose). A case is one constructed "
    "(or rejected) screen; distinct = hash of (arity, control, sorted distinct (name,dose) pairs, id matrix); "
    "non-trivial = at least 2 distinct pairs and at least one control and one non-control treatment"
)
ASSUMPTIONS = [
    "NaN doses are outside the quantifier (finite doses)",
    "names do not contain NUL (numpy strips trailing NULs when the array is built)",
    "thorough tier additionally observes every Screen constructed by the repository's own test-suite",
]
REQUIRED = {
    "fresh_checked": {"quick": 6000, "thorough": 60000},
    "superset_checked": {"quick": 2000, "thorough": 24000},
    "rejections_checked": {"quick": 1500, "thorough": 15000},
    "refilled_buffers_checked": {"quick": 1000, "thorough": 12000},
    "derived_screens_checked": {"quick": 600, "thorough": 8000},
    "held_plate_views_after_merge": {"quick": 300, "thorough": 1500},
}
N_CASES = {"quick": 8000, "thorough": 96000}


def abstract(kw, screen):
    pairs = sorted(set(zip(kw["treatment_names"].ravel().tolist(), kw["treatment_doses"].ravel().tolist())))
    return (kw["treatment_names"].shape[1], kw["control_treatment_name"], tuple(pairs), kit.array_hash(screen.treatment_ids))


def nontrivial(kw):
    c = kw["control_treatment_name"]
    names = kw["treatment_names"].ravel().tolist()
    doses = kw["treatment_doses"].ravel().tolist()
    isc = [(n == c) or (d <= 0) for n, d in zip(names, doses)]
    return len(set(zip(names, doses))) >= 2 and any(isc) and not all(isc)


def oracle(rec, screen, kw, tm=None, sm=None):
    from batchie.data import ExperimentSpace

    probs = encoding.check_screen(screen, kw["treatment_names"], kw["treatment_doses"], kw["sample_names"], kw["plate_names"], kw["control_treatment_name"], tm, sm, strict_control=True)
    probs += encoding.check_space(screen, ExperimentSpace)
    rec.count("oracle_evals")
    for key, msg in probs[:3]:
        rec.violation(key, msg, witness(kw))
    return not probs


def witness(kw):
    return {k: (v.tolist() if isinstance(v, np.ndarray) else v) for k, v in kw.items()}


def run_shard(rec, tier, seed, shard, nshards):
    from batchie.data import Screen

    rng = kit.rng_for(seed, NUM, shard)
    n_cases = N_CASES[tier] // nshards
    for ci in range(n_cases):
        kw = gen.hostile_screen_kwargs(rng)
        try:
            s = Screen(**kw)
        except Exception as e:
            rec.case(None, nontrivial=False)
            rec.did_not_return("construct-fresh", e)
            # a fresh construction from well-formed arrays has no reason to fail
            rec.violation("C01/construct/fresh-raises", "constructor raised %r on well-formed arrays" % (e,), witness(kw))
            continue
        rec.case(abstract(kw, s), nontrivial=nontrivial(kw))
        rec.count("fresh_checked")
        oracle(rec, s, kw)
        if ci < 2 and shard == 0:
            rec.sample({"kind": "fresh", "control": kw["control_treatment_name"], "names": kw["treatment_names"].tolist()[:6], "doses": kw["treatment_doses"].tolist()[:6], "ids": np.asarray(s.treatment_ids).tolist()[:6]})

        if rng.random() < 0.12:
            # ---- screens constructed BY the library from other screens: Screen.combine / Screen.concat
            derived_screens(rec, rng, Screen, s, kw)
            if s.size >= 3:
                parts_of_one_parent(rec, rng, Screen, s, kw)

        if rng.random() < 0.25:
            # ---- the caller refills its buffers: same array OBJECTS, changed content, constructed again
            #      (Plate.merge + mask_screen do exactly this with plate_names)
            for what in rng.permutation(["plate_names", "sample_names", "treatment_names", "treatment_doses"])[: int(rng.integers(1, 3))]:
                arr = kw[str(what)]
                flat = arr.reshape(-1)
                for _ in range(int(rng.integers(1, 4))):
                    i, j = int(rng.integers(flat.size)), int(rng.integers(flat.size))
                    if what == "treatment_doses":
                        flat[i] = float(rng.choice(gen.HOSTILE_DOSES))
                    elif rng.random() < 0.5:
                        flat[i] = flat[j]
                    else:
                        flat[i] = str(rng.choice(gen.HOSTILE_NAMES))[: max(1, arr.dtype.itemsize // 4)]
            kwr = {k: v for k, v in kw.items() if k != "observation_mask"}  # a changed plate layout may make an old mask mixed
            try:
                s_again = Screen(**kwr)
            except Exception as e:
                rec.case(None, nontrivial=False)
                rec.violation("C01/construct/fresh-raises", "constructor raised %r on re-used (refilled) arrays" % (e,), witness(kwr))
            else:
                rec.case(abstract(kwr, s_again) + ("refilled",), nontrivial=nontrivial(kwr))
                rec.count("refilled_buffers_checked")
                oracle(rec, s_again, kwr)
            continue
        if rng.random() < 0.55:
            # ---- subset re-constructed with the superset's mappings
            n = s.size
            sel = rng.random(n) < rng.choice([0.2, 0.5, 0.8])
            if not sel.any():
                sel[int(rng.integers(n))] = True
            # keep the mask plate-uniform: choose by plate when a mask exists
            kw2 = dict(
                treatment_names=kw["treatment_names"][sel],
                treatment_doses=kw["treatment_doses"][sel],
                sample_names=kw["sample_names"][sel],
                plate_names=kw["plate_names"][sel],
                control_treatment_name=kw["control_treatment_name"],
            )
            tm = tuple(np.array(a, copy=True) for a in s.treatment_mapping)
            sm = tuple(np.array(a, copy=True) for a in s.sample_mapping)
            if rng.random() < 0.5:
                # fixed-width unicode name arrays: what Screen.load_h5 / ExperimentSpace.load_h5 hand back
                tm = (tm[0].astype(str), tm[1], tm[2])
                sm = (sm[0].astype(str), sm[1])
                rec.count("superset_fixed_width_mappings")
            try:
                s2 = Screen(treatment_mapping=tm, sample_mapping=sm, **kw2)
            except Exception as e:
                rec.case(None, nontrivial=False)
                rec.violation("C01/construct/own-superset-mapping-rejected", "constructor raised %r with a mapping batchie produced for a superset" % (e,), witness(kw2))
                continue
            rec.case(abstract(kw2, s2) + ("sup",), nontrivial=nontrivial(kw2))
            rec.count("superset_checked")
            if int(sel.sum()) < n:
                rec.count("superset_strict")
            oracle(rec, s2, kw2, tm, sm)
            # ids must coincide with the superset's ids on the same rows
            rec.check(np.array_equal(np.asarray(s2.treatment_ids), np.asarray(s.treatment_ids)[sel]) and np.array_equal(np.asarray(s2.sample_ids), np.asarray(s.sample_ids)[sel]), "C01/mapping/ids-differ-from-superset", "ids under a supplied mapping differ from the superset's ids on the same rows", witness(kw2))
            if ci < 4 and shard == 0:
                rec.sample({"kind": "superset", "kept_rows": int(sel.sum()), "of": int(n), "mapping_rows": int(len(tm[0]))})
            if rng.random() < 0.5:
                # the caller goes on working with ITS tables (new units, another numbering for the next screen): the
                # screen built from them a moment ago keeps decoding its rows to what they were
                tm_then = tuple(np.array(a, copy=True) for a in tm)
                sm_then = tuple(np.array(a, copy=True) for a in sm)
                ids_then = (np.array(s2.treatment_ids, copy=True), np.array(s2.sample_ids, copy=True))
                try:
                    tm[1][:] = tm[1] * 1000.0
                    tm[2][:] = tm[2][::-1].copy()
                    sm[1][:] = sm[1][::-1].copy()
                    tm[0][:] = "zz"
                    sm[0][:] = "zz"
                except ValueError:
                    rec.count("caller_tables_read_only")
                else:
                    rec.count("caller_tables_rewritten_after_construction")
                    rec.check(np.array_equal(np.asarray(s2.treatment_ids), ids_then[0]) and np.array_equal(np.asarray(s2.sample_ids), ids_then[1]), "C01/mapping/aliases-callers-arrays", "the ids of a screen changed when the caller rewrote the mapping tables it had passed in", witness(kw2))
                    got_t, got_s = s2.treatment_mapping, s2.sample_mapping
                    same = all(kit.str_equal(a, b) if np.asarray(a).dtype.kind in "USO" else np.array_equal(np.asarray(a), np.asarray(b)) for a, b in zip(tuple(got_t) + tuple(got_s), tm_then + sm_then))
                    rec.check(same, "C01/mapping/aliases-callers-arrays", "the mappings of a screen changed when the caller rewrote the tables it had passed in", witness(kw2))
                    oracle(rec, s2, kw2, tm_then, sm_then)
                tm, sm = tm_then, sm_then

            # ---- one of the two tables supplied alone is followed just the same
            if rng.random() < 0.3:
                try:
                    which_ = "sample_mapping" if rng.random() < 0.5 else "treatment_mapping"
                    s3 = Screen(**{which_: sm if which_ == "sample_mapping" else tm}, **kw2)
                    rec.count("screens_with_one_mapping_supplied_alone")
                    oracle(rec, s3, kw2, None if which_ == "sample_mapping" else tm, sm if which_ == "sample_mapping" else None)
                except Exception as e:
                    rec.violation("C01/construct/own-superset-mapping-rejected", "constructor raised %r with one mapping (of a superset) supplied alone" % (e,), witness(kw2))
            # ---- rejection cases
            ids2 = np.asarray(s2.treatment_ids)
            mids = np.asarray(tm[2])
            used = set(int(x) for x in ids2.ravel().tolist())
            mode = int(rng.integers(0, 6))
            if mode >= 4:
                # a name the mapping does not list - in particular one that EXTENDS a listed name, so that it would
                # match after truncation to the mapping's string width - must be rejected
                kw3 = {k: (v.copy() if isinstance(v, np.ndarray) else v) for k, v in kw2.items()}
                if mode == 4:
                    base = str(rng.choice(kw3["sample_names"]))
                    new = base + str(rng.choice(["0", "x", " ", "_long_suffix"]))
                    if new not in set(str(x) for x in sm[0]):
                        arr = kw3["sample_names"].astype(object)
                        arr[int(rng.integers(len(arr)))] = new
                        kw3["sample_names"] = arr.astype(str)
                        expect_reject(rec, Screen, kw3, dict(treatment_mapping=tm, sample_mapping=sm), "C01/sample-mapping/uncovering-accepted", "sample %r is not listed by the supplied mapping (which lists %r) but was accepted" % (new, base))
                else:
                    i, a = int(rng.integers(kw3["treatment_names"].shape[0])), int(rng.integers(kw3["treatment_names"].shape[1]))
                    base = str(kw3["treatment_names"][i, a])
                    new = base + str(rng.choice(["0", "x", " ", "_long_suffix"]))
                    if new not in set(str(x) for x in tm[0]) and new != kw3["control_treatment_name"]:
                        arr = kw3["treatment_names"].astype(object)
                        arr[i, a] = new
                        kw3["treatment_names"] = arr.astype(str)
                        if float(kw3["treatment_doses"][i, a]) > 0 or True:
                            expect_reject(rec, Screen, kw3, dict(treatment_mapping=tm, sample_mapping=sm), "C01/mapping/uncovering-accepted", "treatment %r is not listed by the supplied mapping (which lists %r) but was accepted" % (new, base))
            if mode == 0:
                # remove one used row (mapping no longer covers the data)
                cand = [r for r in range(len(mids)) if int(mids[r]) in used and (int(mids[r]) != -1 or _pair_used(tm, r, kw2))]
                if cand:
                    r = int(rng.choice(cand))
                    keep = np.ones(len(mids), dtype=bool)
                    keep[r] = False
                    bad = tuple(a[keep] for a in tm)
                    expect_reject(rec, Screen, kw2, dict(treatment_mapping=bad, sample_mapping=sm), "C01/mapping/uncovering-accepted", "treatment mapping lacking used row %r accepted" % (r,))
            elif mode == 1:
                # open a gap: drop a non-maximal non-control id that the data does not use
                nc = sorted(int(x) for x in mids.tolist() if x != -1)
                cand = [r for r in range(len(mids)) if int(mids[r]) != -1 and int(mids[r]) not in used and int(mids[r]) != (nc[-1] if nc else -2)]
                if cand:
                    r = int(rng.choice(cand))
                    keep = np.ones(len(mids), dtype=bool)
                    keep[r] = False
                    bad = tuple(a[keep] for a in tm)
                    expect_reject(rec, Screen, kw2, dict(treatment_mapping=bad, sample_mapping=sm), "C01/mapping/non-dense-accepted", "treatment mapping with a gap at id %d accepted" % int(mids[r]))
            elif mode == 2:
                sids = np.asarray(sm[1])
                useds = set(int(x) for x in np.asarray(s2.sample_ids).tolist())
                cand = [r for r in range(len(sids)) if int(sids[r]) in useds]
                if cand:
                    r = int(rng.choice(cand))
                    keep = np.ones(len(sids), dtype=bool)
                    keep[r] = False
                    bad = tuple(a[keep] for a in sm)
                    expect_reject(rec, Screen, kw2, dict(treatment_mapping=tm, sample_mapping=bad), "C01/sample-mapping/uncovering-accepted", "sample mapping lacking used row accepted")
            else:
                sids = np.asarray(sm[1])
                useds = set(int(x) for x in np.asarray(s2.sample_ids).tolist())
                cand = [r for r in range(len(sids)) if int(sids[r]) not in useds and int(sids[r]) != int(sids.max())]
                if cand:
                    r = int(rng.choice(cand))
                    keep = np.ones(len(sids), dtype=bool)
                    keep[r] = False
                    bad = tuple(a[keep] for a in sm)
                    expect_reject(rec, Screen, kw2, dict(treatment_mapping=tm, sample_mapping=bad), "C01/sample-mapping/non-dense-accepted", "sample mapping with a gap accepted")

    # ---- piggyback: class-level invariant under realistic pipeline workloads
    piggyback(rec, tier, rng)
    if tier == "thorough" and shard == 0:
        run_repo_tests_under_invariant(rec)


def derived_screens(rec, rng, Screen, s, kw):
    """combine / concat build a new Screen from the parts' arrays: the result is judged like any other screen, against
    the concatenated raw arrays and the (common) control name of its parts."""
    parts_kw, parts = [kw], [s]
    for j in range(int(rng.integers(1, 3))):
        kw2 = gen.hostile_screen_kwargs(rng, n=int(rng.integers(1, 12)), arity=kw["treatment_names"].shape[1])
        kw2["control_treatment_name"] = kw["control_treatment_name"]
        if rng.random() < 0.5:
            # share conditions / samples with the first part
            k = min(len(kw2["sample_names"]), s.size)
            take = rng.integers(0, s.size, size=k)
            kw2["treatment_names"] = np.concatenate([kw["treatment_names"][take], kw2["treatment_names"][k:]])
            kw2["treatment_doses"] = np.concatenate([kw["treatment_doses"][take], kw2["treatment_doses"][k:]])
            kw2["sample_names"] = np.concatenate([kw["sample_names"][take], kw2["sample_names"][k:]])
        kw2["plate_names"] = np.char.add(kw2["plate_names"].astype(str), "#%d" % (j + 2))  # keeps every plate uniform
        try:
            parts.append(Screen(**kw2))
            parts_kw.append(kw2)
        except Exception as e:
            rec.did_not_return("construct-part", e)
            return
    how = "combine" if len(parts) == 2 and rng.random() < 0.6 else "concat"
    try:
        if how == "combine":
            d = parts[0].combine(parts[1])
        else:
            d = Screen.concat(list(parts))
    except Exception as e:
        rec.case(None, nontrivial=False)
        rec.violation("C01/derived/%s-raises" % how, "Screen.%s of screens with one control name raised %r" % (how, e), witness(kw))
        return
    kwd = dict(
        treatment_names=np.concatenate([k_["treatment_names"] for k_ in parts_kw]),
        treatment_doses=np.concatenate([k_["treatment_doses"] for k_ in parts_kw]),
        sample_names=np.concatenate([k_["sample_names"] for k_ in parts_kw]),
        plate_names=np.concatenate([k_["plate_names"] for k_ in parts_kw]),
        control_treatment_name=kw["control_treatment_name"],
    )
    rec.case(abstract(kwd, d) + (how,), nontrivial=nontrivial(kwd))
    rec.count("derived_screens_checked")
    rec.check(str(d.control_treatment_name) == str(kw["control_treatment_name"]), "C01/derived/control-name-lost", lambda: "Screen.%s of screens with control name %r has control name %r" % (how, kw["control_treatment_name"], d.control_treatment_name), witness(kwd))
    oracle(rec, d, kwd)


def parts_of_one_parent(rec, rng, Screen, s, kw):
    """What the hold-out / mask / reveal helpers hand out: screens cut from one parent and built with the PARENT's
    mappings. The union of some of them is a new screen that nobody gave a mapping to: judged against its own rows."""
    n = s.size
    group = rng.integers(0, 3, size=n)
    group[rng.permutation(n)[:3]] = [0, 1, 2]
    tm = tuple(np.array(a, copy=True) for a in s.treatment_mapping)
    sm = tuple(np.array(a, copy=True) for a in s.sample_mapping)
    parts, parts_kw = [], []
    for g in range(3):
        sel = group == g
        kwg = dict(
            treatment_names=kw["treatment_names"][sel],
            treatment_doses=kw["treatment_doses"][sel],
            sample_names=kw["sample_names"][sel],
            plate_names=np.char.add(kw["plate_names"][sel].astype(str), "#%d" % g),
            control_treatment_name=kw["control_treatment_name"],
        )
        try:
            parts.append(Screen(treatment_mapping=tm, sample_mapping=sm, **kwg))
        except Exception as e:
            rec.did_not_return("construct-part-of-parent", e)
            return
        parts_kw.append(kwg)
    which = [[0, 1], [1, 2], [2, 0], [0, 1, 2]][int(rng.integers(4))]
    how = "combine" if len(which) == 2 and rng.random() < 0.6 else "concat"
    try:
        d = parts[which[0]].combine(parts[which[1]]) if how == "combine" else Screen.concat([parts[i] for i in which])
    except Exception as e:
        rec.case(None, nontrivial=False)
        rec.violation("C01/derived/%s-raises" % how, "Screen.%s of parts of one parent raised %r" % (how, e), witness(kw))
        return
    kwd = {k: np.concatenate([parts_kw[i][k] for i in which]) for k in ("treatment_names", "treatment_doses", "sample_names", "plate_names")}
    kwd["control_treatment_name"] = kw["control_treatment_name"]
    rec.case(abstract(kwd, d) + (how, "parts"), nontrivial=nontrivial(kwd))
    rec.count("derived_screens_checked")
    rec.count("unions_of_parts_of_one_parent")
    oracle(rec, d, kwd)


def _pair_used(tm, r, kw):
    name, dose = str(tm[0][r]), float(tm[1][r])
    for n, d in zip(kw["treatment_names"].ravel().tolist(), kw["treatment_doses"].ravel().tolist()):
        if n == name and d == dose:
            return True
    return False


_ALONE = {}


def expect_reject(rec, Screen, kw, maps, key, msg):
    rec.case(None, nontrivial=False)
    _ALONE[key] = _ALONE.get(key, 0) + 1
    if len(maps) == 2 and key.split("/")[1] in ("mapping", "sample-mapping") and _ALONE[key] % 2 == 0:
        # the faulty table supplied ALONE (the other one left out): it is still checked
        alone = "sample_mapping" if key.split("/")[1] == "sample-mapping" else "treatment_mapping"
        maps = {alone: maps[alone]}
        msg += " (supplied without the other mapping)"
        rec.count("rejections_with_one_mapping_supplied_alone")
    try:
        Screen(**kw, **maps)
    except Exception:
        rec.count("rejections_checked")
        rec.count("oracle_evals")
        return
    rec.count("rejections_checked")
    rec.count("oracle_evals")
    rec.violation(key, msg, witness(kw))


def piggyback(rec, tier, rng):
    """Screens constructed by the real preparation pipeline, observed by the class-level invariant."""
    from batchie import retrospective as R
    from batchie.data import Screen

    n = 40 if tier == "quick" else 200
    with kit.Patches() as P:
        invariants.install_screen_init_invariant(rec, P, strict_control=False, want=("C01",))
        for _ in range(n):
            kw = gen.realistic_screen_kwargs(rng, observed="all", plate_per_sample=bool(rng.random() < 0.5), singletons=0.2)
            try:
                s = Screen(**kw)
                s = R.mask_screen(s)
                g = R.PlatePermutationPlateGenerator()
                s = g.generate_plates(s, rng)
                tr, te = R.create_plate_balanced_holdout_set_among_masked_plates(s, float(rng.choice([0.1, 0.3, 0.5])), rng)
                pid = int(rng.choice(tr.unique_plate_ids))
                tr2 = R.reveal_plates(tr, [pid])
                R.unmask_screen(tr2)
                # merge two plates in place (changes plate_names of tr2's own array), then rebuild from the same arrays
                pls = R.mask_screen(tr2)
                if pls.n_plates >= 3 and rng.random() < 0.6:
                    # merge a view that is NOT exactly one whole plate: part of a plate, or a combination of parts
                    from batchie.data import Plate as _Plate
                    a = pls.plates[0]
                    other_rows = np.flatnonzero(~np.asarray(a.selection_vector))
                    pick = rng.choice(other_rows, size=int(rng.integers(1, min(4, len(other_rows)) + 1)), replace=False)
                    selv = np.zeros(pls.size, dtype=bool)
                    selv[pick] = True
                    part = _Plate(pls, selv) if rng.random() < 0.5 else pls.subset(selv).combine(pls.subset(np.zeros(pls.size, dtype=bool)))
                    try:
                        a.merge(part)
                        rec.count("merges_with_partial_views")
                    except ValueError as e:
                        rec.did_not_return("merge-partial-view", e)
                    names_now = [str(x) for x in pls.plate_names]
                    ids_now = [int(x) for x in pls.plate_ids]
                    dec = {}
                    okm = True
                    for n_, i_ in zip(names_now, ids_now):
                        if dec.setdefault(i_, n_) != n_:
                            okm = False
                    rec.check(okm and sorted(set(ids_now)) == list(range(len(set(names_now)))), "C01/plate/ids-not-dense", lambda: "after Plate.merge with a partial view the plate ids %r are not a dense encoding of the plate names %r" % (ids_now[:12], names_now[:12]), None)
                if pls.n_plates >= 2:
                    held = list(pls.plates)
                    _ids_before = [int(v.plate_id) for v in held]  # the views are asked once before the merge
                    a, b = held[0], held[-1]
                    a.merge(b)
                    # plate views held by the caller: after the merge renumbered the screen's plates, each of them
                    # still reports the id (and name) that its rows carry
                    rec.count("held_plate_views_after_merge", len(held))
                    for v in held:
                        rows_ = np.flatnonzero(np.asarray(v.selection_vector))
                        ids_ = set(int(x) for x in np.asarray(pls.plate_ids)[rows_])
                        rec.check(ids_ == {int(v.plate_id)}, "C01/plate/ids-not-dense", lambda: "after Plate.merge a held plate view reports plate_id %d while its rows carry ids %r" % (int(v.plate_id), sorted(ids_)), None)
                    m2 = R.mask_screen(pls)
                    rec.check(int(m2.n_plates) == len(set(str(x) for x in m2.plate_names)) and sorted(set(int(x) for x in m2.plate_ids)) == list(range(m2.n_plates)), "C01/plate/ids-not-dense", "after Plate.merge + mask_screen the plate ids are not the dense range over the plate names", None)
                rec.count("piggyback_pipelines")
            except Exception as e:
                rec.did_not_return("piggyback", e)


def run_repo_tests_under_invariant(rec):
    """The repository's own tests as extra workload (plugin reports through a JSON file)."""
    from .. import repoimport
    import json, tempfile

    root = os.path.dirname(os.path.dirname(os.path.dirname(os.path.abspath(__file__))))
    out = tempfile.mktemp(prefix="vf-pytest-", suffix=".json", dir=os.environ.get("VERIF_RUN_ROOT") or os.environ.get("VERIF_SCRATCH", "/var/tmp"))
    env = dict(os.environ)
    env["PYTHONPATH"] = root + os.pathsep + os.path.join(repoimport.REPO, "src")
    env["VF_PLUGIN_OUT"] = out
    env["VF_PLUGIN_WANT"] = "C01"
    try:
        p = subprocess.run([sys.executable, "-B", "-m", "pytest", "-q", "-x", "-p", "no:cacheprovider", "-p", "vf.pytest_plugin", "src/batchie/data_test.py", "src/batchie/retrospective_test.py", "src/batchie/core_test.py", "src/batchie/scoring/main_test.py"], cwd=repoimport.REPO, env=env, stdout=subprocess.PIPE, stderr=subprocess.STDOUT, timeout=1800)
    except subprocess.TimeoutExpired:
        rec.notes.append("repo test-suite under invariant: watchdog")
        return
    if os.path.exists(out):
        with open(out) as f:
            r = json.load(f)
        os.remove(out)
        rec.count("testsuite_screens_observed", r["counters"].get("screen_init_observed", 0))
        rec.count("oracle_evals", r["counters"].get("oracle_evals", 0))
        for v in r["violations"]:
            rec.violation(v["key"], "[under repo test-suite] " + v["message"], v["witness"])
    else:
        rec.notes.append("repo test-suite under invariant produced no report: rc=%s %s" % (p.returncode, p.stdout.decode("utf-8", "replace")[-400:]))
