"""C11 - retrospective preparation conserves experiments; the hold-out split partitions."""
import math
from collections import Counter
from fractions import Fraction

import numpy as np

from .. import kit, gen
from . import retro_common as RC

PROP, NUM = "C11", 11
LEVEL = "exploration"
SHARDS = {"quick": 8, "thorough": 16}
TIMEOUT = {"quick": 900, "thorough": 5400}
RULE = (
    "every shipped generator (Pairwise, PlatePermutation, SampleSegregating), smoother (MergeMin, MergeTopBottom, "
    "FixedSize, OptimalSize, NPlatePerCellLine, BatchieEnsemble) and both hold-outs with random (also useless) "
    "parameters and fresh / advanced / shared generator states on screens with unique observation tags, duplicate "
    "conditions, single-agent rows and plate-uniform masks; multisets keyed by the unique tag decide conservation. A "
    "case is one operation on one screen; distinct = (operation, parameters, screen hash); an operation that raises is "
    "'did not return' (counted, not judged); non-trivial = the operation returned and the input has >=2 plates or >=2 samples"
)
ASSUMPTIONS = ["per-plate hold-out count: ceil of the float product, of the exact rational product, and of the decimal reading of the fraction are all accepted"]
REQUIRED = {"holdouts_with_failed_wells_on_observed_plates": {"quick": 60, "thorough": 800}, "holdout_grid_points": {"quick": 2500, "thorough": 2500}, "returned_screens_changed_in_place": {"quick": 150, "thorough": 3000}, "holdouts_on_integer_masks": {"quick": 80, "thorough": 1200}, "cli_prepare_runs": {"quick": 12, "thorough": 150}, "cli_prepare_fraction_0": {"quick": 6, "thorough": 14}, "generator_returns": {"quick": 600, "thorough": 9000}, "smoother_returns": {"quick": 1000, "thorough": 15000}, "holdout_returns": {"quick": 500, "thorough": 7000}, "input_unchanged_checks": {"quick": 3500, "thorough": 50000}, "ops_after_in_place_reveal": {"quick": 150, "thorough": 2500}}
N_OPS = {"quick": 4000, "thorough": 56000}


def rows(s, plate=False, mask=False):
    return gen.rows_multiset(s, with_plate=plate, with_mask=mask)


def accepted_counts(size, fraction):
    out = {math.ceil(size * fraction)}
    try:
        out.add(math.ceil(Fraction(fraction) * size))
        out.add(math.ceil(Fraction(repr(fraction)) * size))
    except Exception:
        pass
    return out


def check_generator_or_smoother(rec, kind, name, params, inp, out, w):
    rin, rout = rows(inp), rows(out)
    extra = rout - rin
    rec.check(not extra, "C11/%s/invented-or-altered-row" % kind, lambda: "%s%r: %d output rows are not input rows (first %r)" % (name, params, sum(extra.values()), next(iter(extra))), w)
    if kind == "generator":
        lost = rin - rout
        rec.check(not lost, "C11/generator/lost-row", lambda: "%s%r: %d input rows missing from the output" % (name, params, sum(lost.values())), w)
    # duplicates: the unique tag makes every input row distinct
    dup = [k for k, v in rout.items() if v > rin.get(k, 0)]
    rec.check(not dup, "C11/%s/duplicated-row" % kind, lambda: "%s%r: a row occurs more often in the output than in the input" % (name, params), w)
    # observed part passes through unchanged (incl. plate name) and still observed
    obs_in = Counter()
    for k, v in gen.rows_multiset(inp, with_plate=True, with_mask=True).items():
        if k[-1]:
            obs_in[k] += v
    obs_out = Counter()
    unobs_became_observed = 0
    full_out = gen.rows_multiset(out, with_plate=True, with_mask=True)
    for k, v in full_out.items():
        if k[-1]:
            obs_out[k] += v
    missing = obs_in - obs_out
    rec.check(not missing, "C11/%s/observed-part-changed" % kind, lambda: "%s%r: %d observed rows were altered, relabelled or hidden" % (name, params, sum(missing.values())), w)
    newly = obs_out - obs_in
    rec.check(not newly, "C11/%s/unobserved-row-became-observed" % kind, lambda: "%s%r: %d rows are observed in the output that were not observed in the input" % (name, params, sum(newly.values())), w)


def check_holdout(rec, name, fraction, inp, train, hold, w):
    rin = rows(inp, plate=True)
    both = rows(train, plate=True) + rows(hold, plate=True)
    rec.check(both == rin, "C11/holdout/not-a-partition", lambda: "%s(%r): training + hold-out != input (missing %d, extra %d)" % (name, fraction, sum((rin - both).values()), sum((both - rin).values())), w)
    rec.check(bool(np.all(hold.observation_mask)), "C11/holdout/holdout-not-fully-observed", "%s: hold-out mask not all true" % name, w)
    # training mask row-wise unchanged
    m_in = {float(t): bool(m) for t, m in zip(inp.observations, inp.observation_mask)}
    bad = [float(t) for t, m in zip(train.observations, train.observation_mask) if m_in.get(float(t)) != bool(m)]
    rec.check(not bad, "C11/holdout/training-mask-changed", lambda: "%s: %d training rows changed their mask" % (name, len(bad)), w)
    if name == "holdout_balanced":
        hold_tags = set(float(t) for t in hold.observations)
        for p in np.unique(inp.plate_names):
            sel = inp.plate_names == p
            size = int(sel.sum())
            observed = bool(inp.observation_mask[sel][0])
            k = sum(1 for t in inp.observations[sel] if float(t) in hold_tags)
            if observed:
                rec.check(k == 0, "C11/holdout/row-from-observed-plate", lambda: "hold-out took %d rows from observed plate %r" % (k, str(p)), w)
            else:
                rec.check(k in accepted_counts(size, fraction), "C11/holdout/wrong-per-plate-count", lambda: "hold-out took %d of %d rows from unobserved plate %r, fraction %r" % (k, size, str(p), fraction), w)
    else:
        rec.check(hold.size in accepted_counts(inp.size, fraction), "C11/holdout/wrong-count", lambda: "random hold-out took %d of %d rows, fraction %r" % (hold.size, inp.size, fraction), w)


def holdout_grid(rec, rng, shard, nshards):
    """The count rule on a grid: every plate size 1..48 against every fraction k/20 (and k/3, k/7, k/8): products that
    are exact integers, products a hair off an integer, complements that round the other way in binary."""
    from batchie.data import Screen
    from batchie import retrospective as R

    fractions = sorted(set([k / 20 for k in range(1, 20)] + [k / 3 for k in (1, 2)] + [k / 7 for k in range(1, 7)] + [k / 8 for k in range(1, 8)]))
    for size in range(1 + shard, 49, nshards):
        tn = np.array([["d%d" % (i % 4), "e%d" % (i % 3)] for i in range(size + 2)], dtype=str)
        kw = dict(treatment_names=tn, treatment_doses=np.ones((size + 2, 2)), sample_names=np.array(["s%d" % (i % 2) for i in range(size + 2)], dtype=str), plate_names=np.array(["big"] * size + ["seen"] * 2, dtype=str), observations=(np.arange(size + 2) + 1.0) / (size + 5.0), observation_mask=np.array([False] * size + [True] * 2))
        scr = Screen(**kw)
        for f in fractions:
            for name, fn in (("holdout_balanced", R.create_plate_balanced_holdout_set_among_masked_plates), ("holdout_random", R.create_random_holdout)):
                w = {"op": name, "fraction": f, "plate_size": size}
                try:
                    train, hold = fn(scr, f, np.random.default_rng(int(rng.integers(0, 2**31))))
                except Exception as e:
                    rec.did_not_return(name + "-grid", e)
                    continue
                rec.count("holdout_grid_points")
                rec.count("oracle_evals")
                want = accepted_counts(size if name == "holdout_balanced" else size + 2, f)
                rec.check(hold.size in want, "C11/holdout/wrong-per-plate-count" if name == "holdout_balanced" else "C11/holdout/wrong-count", lambda: "%s: fraction %r of %d experiments gave a hold-out of %d, expected %r" % (name, f, size if name == "holdout_balanced" else size + 2, hold.size, sorted(want)), w)


def holdout_with_failed_wells(rec, rng, n):
    """Observed plates whose read-outs include failed wells (NaN), saturated ones (inf) or exact zeros are observed
    plates all the same: the plate-balanced hold-out takes nothing from them and ceil(fraction x size) from each
    unobserved plate.  Judged by plate NAME (a NaN cannot serve as a row tag)."""
    from batchie.data import Screen
    from batchie import retrospective as R

    for _ in range(n):
        sizes = {"seen_a": int(rng.integers(1, 7)), "seen_b": int(rng.integers(1, 7)), "todo_a": int(rng.integers(1, 13)), "todo_b": int(rng.integers(1, 13))}
        pn = np.array([p for p, k in sizes.items() for _i in range(k)], dtype=str)
        n_ = len(pn)
        o = rng.permutation(n_)
        pn = pn[o]
        obs = rng.uniform(0.05, 0.95, size=n_)
        mask = np.char.startswith(pn, "seen")
        odd = np.flatnonzero(mask)
        for i_ in odd[rng.random(len(odd)) < 0.5]:
            obs[i_] = float(rng.choice([float("nan"), float("nan"), float("inf"), 0.0]))
        kw = dict(treatment_names=np.array([["d%d" % (i % 4), "e%d" % (i % 3)] for i in range(n_)], dtype=str), treatment_doses=np.ones((n_, 2)), sample_names=np.array(["s%d" % (i % 2) for i in range(n_)], dtype=str), plate_names=pn, observations=obs, observation_mask=mask)
        f = float(rng.choice([0.1, 0.25, 0.5, 0.75, 1.0, float(rng.uniform(0.01, 0.99))]))
        w = {"op": "holdout_balanced", "fraction": f, "plate_sizes": sizes, "observed_values": [repr(float(x)) for x in obs[mask]]}
        rec.case(("failed-wells", kit.array_hash(pn), repr(f), kit.array_hash(np.nan_to_num(obs, nan=-7.0, posinf=-8.0))))
        try:
            scr = Screen(**kw)
            train, hold = R.create_plate_balanced_holdout_set_among_masked_plates(scr, f, np.random.default_rng(int(rng.integers(0, 2**31))))
        except Exception as e:
            rec.did_not_return("holdout-failed-wells", e)
            continue
        rec.count("holdouts_with_failed_wells_on_observed_plates")
        rec.count("oracle_evals")
        taken = {p: int(np.sum(np.asarray(hold.plate_names).astype(str) == p)) for p in sizes}
        for p, k in sizes.items():
            if p.startswith("seen"):
                rec.check(taken[p] == 0, "C11/holdout/row-from-observed-plate", lambda: "hold-out took %d rows from observed plate %r (its read-outs: %r)" % (taken[p], p, [repr(float(x)) for x in obs[pn == p]]), w)
            else:
                rec.check(taken[p] in accepted_counts(k, f), "C11/holdout/wrong-per-plate-count", lambda: "hold-out took %d of %d rows from unobserved plate %r, fraction %r" % (taken[p], k, p, f), w)
        rec.check(train.size + hold.size == n_, "C11/holdout/not-a-partition", lambda: "training %d + hold-out %d rows, screen has %d" % (train.size, hold.size, n_), w)


def cli_prepare(rec, tier, rng):
    """The preparation step as the pipeline runs it: prepare_retrospective_simulation on a file, with the fraction (0
    and 1 included), generator and smoother given on the command line; the two output files are judged against the
    input file."""
    import os
    from batchie.data import Screen
    from batchie import data as D
    from batchie.cli import prepare_retrospective_simulation as cli

    n = {"quick": 3, "thorough": 16}[tier]
    fractions = ["0", "0.0", "1", "1.0", "0.1", "0.3", "1e-10", "0.5"]
    with kit.scratch_dir("vf-c11-") as tmp:
        for ci in range(n):
            kw, flavour = RC.retro_screen_kwargs(rng)
            kw = dict(kw, observation_mask=np.ones(len(kw["plate_names"]), dtype=bool))
            try:
                full = Screen(**kw)
            except Exception as e:
                rec.did_not_return("cli-construct", e)
                continue
            f_in, f_tr, f_te = (os.path.join(tmp, x) for x in ("in.h5", "train.h5", "test.h5"))
            full.save_h5(f_in)
            frac = fractions[int(rng.integers(len(fractions)))] if ci else "0"
            argv = ["--data", f_in, "--training-output", f_tr, "--test-output", f_te, "--holdout-fraction", frac, "--seed", int(rng.integers(0, 1000))]
            gen_name = str(rng.choice(["none", "PlatePermutationPlateGenerator", "SampleSegregatingPermutationPlateGenerator"]))
            if gen_name == "SampleSegregatingPermutationPlateGenerator":
                argv += ["--plate-generator", gen_name, "--plate-generator-param", "max_plate_size=%d" % int(rng.integers(2, 8))]
            elif gen_name != "none":
                argv += ["--plate-generator", gen_name]
            w = {"via": "prepare_retrospective_simulation", "fraction": frac, "generator": gen_name, "rows": int(full.size)}
            for f_ in (f_tr, f_te):
                if os.path.exists(f_):
                    os.remove(f_)
            try:
                kit.run_cli(cli.main, argv)
                train, test = Screen.load_h5(f_tr), Screen.load_h5(f_te)
            except Exception as e:
                rec.did_not_return("cli-prepare", e)
                continue
            rec.count("cli_prepare_runs")
            rec.count("cli_prepare_fraction_" + frac)
            rec.case(("cli", kit.array_hash(full.observations), frac, gen_name), nontrivial=True)
            filtered = D.filter_dataset_to_treatments_that_appear_in_at_least_one_combo(full)
            rin = rows(filtered)
            both = rows(train) + rows(test)
            extra = both - rin
            rec.check(not extra, "C11/cli/invented-or-duplicated-row", lambda: "training + test files hold %d rows that are not rows of the (combination-filtered) input" % sum(extra.values()), w)
            if gen_name == "none":
                rec.check(both == rin, "C11/cli/lost-row", lambda: "without a smoother training + test must be the filtered input: %d rows missing" % sum((rin - both).values()), w)
            f = float(frac)
            tr_pl = {}
            for pnm, m in zip(train.plate_names, train.observation_mask):
                tr_pl.setdefault(str(pnm), [0, bool(m)])[0] += 1
            te_pl = Counter(str(x) for x in test.plate_names)
            rec.check(bool(np.all(test.observation_mask)) or test.size == 0, "C11/holdout/holdout-not-fully-observed", "test file not fully observed", w)
            for pnm in set(tr_pl) | set(te_pl):
                n_tr, observed = tr_pl.get(pnm, [0, False])
                k = te_pl.get(pnm, 0)
                if observed:
                    rec.check(k == 0, "C11/holdout/row-from-observed-plate", lambda: "the test file holds %d rows of observed plate %r" % (k, pnm), w)
                else:
                    rec.check(k in accepted_counts(n_tr + k, f), "C11/holdout/wrong-per-plate-count", lambda: "--holdout-fraction %s: %d of the %d rows of unobserved plate %r are in the test file" % (frac, k, n_tr + k, pnm), w)


def run_shard(rec, tier, seed, shard, nshards):
    from batchie.data import Screen
    from batchie import retrospective as R

    rng = kit.rng_for(seed, NUM, shard)
    shared = np.random.default_rng(int(rng.integers(0, 2**31)))
    n_ops = N_OPS[tier] // nshards
    screen = None
    for oi in range(n_ops):
        if screen is None or oi % 3 == 0:
            kw, flavour = RC.retro_screen_kwargs(rng)
            screen = Screen(**kw)
            shash = kit.array_hash(screen.observations) + kit.array_hash(screen.plate_names)
        if rng.random() < 0.15 and not bool(np.all(screen.observation_mask)):
            # the caller reveals a plate on the same Screen object before going on
            un = [p for p in np.unique(screen.plate_names) if not screen.observation_mask[screen.plate_names == p][0]]
            p = str(rng.choice(un))
            sel = np.asarray(screen.plate_names == p)
            screen.set_observed(sel, screen.observations[sel].copy())
            rec.count("ops_after_in_place_reveal")
        kind, name, params, fn = RC.make_operation(rng, R, screen)
        op_screen = screen
        if kind == "holdout" and rng.random() < 0.25 and "observation_mask" in kw:
            # the mask as 0 / 1 integers (what a table or an older file hands over); only the hold-outs are asked to
            # cope with it, the views behind the smoothers insist on booleans
            try:
                op_screen = Screen(**dict(kw, observation_mask=np.asarray(screen.observation_mask).astype([np.int64, np.int8, np.uint8][int(rng.integers(3))])))
                rec.count("holdouts_on_integer_masks")
            except Exception:
                op_screen = screen
        g, gstate = RC.rng_state_variant(shared, rng)
        real_screen, screen = screen, op_screen
        before = RC.screen_fingerprint(kit, screen)
        w = {"op": name, "params": params, "flavour": flavour, "rng": gstate, "rows": int(screen.size), "plates": {str(p): [int((screen.plate_names == p).sum()), bool(screen.observation_mask[screen.plate_names == p][0])] for p in np.unique(screen.plate_names)}, "samples": sorted(set(str(x) for x in screen.sample_names))}
        ok, res = kit.returns(rec, name, fn, screen, g)
        after = RC.screen_fingerprint(kit, screen)
        rec.count("input_unchanged_checks")
        rec.check(before == after, "C11/input/mutated", "%s%r mutated its input screen (returned=%s)" % (name, params, ok), w)
        nontriv = ok and (len(w["plates"]) >= 2 or len(w["samples"]) >= 2)
        rec.case((name, repr(sorted(params.items())), shash, gstate), nontrivial=nontriv)
        if not ok:
            # restore a clean screen for the following operations
            screen = None if before != after else real_screen
            continue
        rec.count("returned_" + name)
        if kind == "holdout":
            rec.count("holdout_returns")
            train, hold = res
            check_holdout(rec, name, params["fraction"], screen, train, hold, w)
            # the two screens are the caller's own: recording results in the training screen (or merging two of its
            # plates) is what the caller does next, and the screen that was split is not touched by that
            for part_name, part in (("training", train), ("hold-out", hold)):
                try:
                    un_ = [p_ for p_ in part.plates if not p_.is_observed]
                    did = []
                    if un_:
                        p_ = un_[int(rng.integers(len(un_)))]
                        part.set_observed(np.asarray(p_.selection_vector).copy(), rng.random(p_.size) + 7.0)
                        did.append("set_observed")
                    pls_ = part.plates
                    if len(pls_) >= 2:
                        pls_[0].merge(pls_[-1])
                        did.append("merge")
                except Exception as e:
                    rec.did_not_return("change-returned-" + part_name, e)
                    continue
                if did:
                    rec.count("returned_screens_changed_in_place")
                    rec.check(RC.screen_fingerprint(kit, screen) == before, "C11/holdout/result-shares-state-with-input", lambda: "%s%r: after %s on the returned %s screen the screen that was split has changed" % (name, params, "+".join(did), part_name), w)
                    if RC.screen_fingerprint(kit, screen) != before:
                        after = None  # the input is spoilt for the following operations
                        break
        else:
            rec.count(kind + "_returns")
            check_generator_or_smoother(rec, kind, name, params, screen, res, w)
        if oi < 6 and shard == 0:
            rec.sample({"op": name, "params": params, "rng": gstate, "input_rows": int(screen.size), "input_plates": len(w["plates"]), "output_rows": int(res[0].size + res[1].size) if kind == "holdout" else int(res.size)})
        if before != after:
            screen = None
        else:
            screen = real_screen
    holdout_grid(rec, rng, shard, nshards)
    holdout_with_failed_wells(rec, rng, 12 if tier == "quick" else 120)
    cli_prepare(rec, tier, rng)
