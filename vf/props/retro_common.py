"""Shared workload of C11 / C13 / C18: screens and the shipped generators, smoothers, hold-outs."""
import numpy as np

from .. import gen


def retro_screen_kwargs(rng, flavour=None):
    """Screens with unique observation tags, duplicate conditions, single-agent rows."""
    if flavour is None:
        flavour = str(rng.choice(["mixed", "per_sample", "per_sample", "few_per_sample", "one_plate", "combo_only"]))
    observed = str(rng.choice(["none", "none", "some", "random"]))
    pdc = float(rng.choice([0.0, 0.0, 0.08]))  # wells with the control in every column
    if flavour == "mixed":
        kw = gen.realistic_screen_kwargs(rng, n_samples=(1, 6), n_rows=(3, 60), n_plates=(1, 12), p_single=0.25, p_dup=0.2, observed=observed, p_double_control=pdc)
    elif flavour == "per_sample":
        kw = gen.realistic_screen_kwargs(rng, n_samples=(1, 6), n_rows=(3, 70), n_plates=(1, 7), p_single=0.2, p_dup=0.2, observed=observed, plate_per_sample=True, p_double_control=pdc)
    elif flavour == "few_per_sample":
        # several samples with few experiments each (at or below typical size limits)
        kw = gen.realistic_screen_kwargs(rng, n_samples=(3, 6), n_rows=(6, 18), n_plates=(1, 3), p_single=0.2, p_dup=0.1, observed=observed, plate_per_sample=bool(rng.random() < 0.5))
    elif flavour == "one_plate":
        kw = gen.realistic_screen_kwargs(rng, n_samples=(1, 4), n_rows=(2, 25), n_plates=(1, 1), p_single=0.3, observed="none")
    else:
        kw = gen.realistic_screen_kwargs(rng, n_samples=(1, 4), n_drugs=(4, 8), n_rows=(8, 60), n_plates=(1, 6), p_single=0.0, p_dup=0.1, observed=observed)
    if flavour in ("mixed", "per_sample") and rng.random() < 0.01:
        kw = gen.realistic_screen_kwargs(rng, n_samples=(3, 8), n_drugs=(4, 8), n_doses=(2, 3), n_rows=(1500, 4500), n_plates=(4, 40), p_single=0.2, p_dup=0.1, p_double_control=pdc, observed=observed, plate_per_sample=(flavour == "per_sample"))
        flavour += "-large"
    elif flavour in ("mixed", "per_sample") and rng.random() < 0.12:
        # other arities: three treatments per experiment (partial combinations) or one
        ar = int(rng.choice([1, 3]))
        kw = gen.realistic_screen_kwargs(rng, n_samples=(1, 5), n_drugs=(3, 6), n_rows=(3, 50), n_plates=(1, 8), p_single=0.2, p_dup=0.2, p_double_control=pdc, observed=observed, plate_per_sample=(flavour == "per_sample"), arity=ar)
        flavour += "-arity%d" % ar
    if rng.random() < 0.15:
        # labels the way a lab writes them: longer than anything the library would make up itself
        kw["plate_names"] = np.array(["2021-03-14_pilot_run_plate_" + str(x) for x in kw["plate_names"]], dtype=str)
        if rng.random() < 0.5:
            kw["sample_names"] = np.array(["patient-derived_xenograft_line_" + str(x) for x in kw["sample_names"]], dtype=str)
        if rng.random() < 0.5:
            c = kw["control_treatment_name"]
            kw["treatment_names"] = np.array([[x if x == c else "compound_library_2021_batch7_" + x for x in row] for row in kw["treatment_names"].tolist()], dtype=str).reshape(kw["treatment_names"].shape)
        flavour += "-long-labels"
    return kw, flavour


# plain fractions, fractions whose product with a plate size is tiny but positive, and fractions whose product with a
# small size lies a hair above / below an integer
HOLDOUT_FRACTIONS = [0.0, 1.0, 0.07, 0.1, 0.3, 0.5, 1.0 / 3.0, 0.7, 0.8, 0.9, 0.6, 0.55, 0.65, 0.75, 0.95, 0.2, 0.4, 1e-10, 1e-12, 5e-324, 0.5 + 2e-10, 0.1 + 1e-11, 0.25 - 1e-12, 1.0 - 1e-12]


def as_given(rng, v):
    """an integer parameter the way callers may hand it over: Python int, numpy integer, 0-d array, length-1 array"""
    u = rng.random()
    if u < 0.75:
        return int(v)
    if u < 0.85:
        return np.int64(v)
    if u < 0.93:
        return np.array(v)
    return np.array([v])


def make_operation(rng, R, screen, only=None):
    """Pick a shipped operation with random (possibly useless) parameters.
    Returns (kind, name, params, callable(screen, rng) -> result)."""
    names = ["Pairwise", "PlatePermutation", "SampleSegregating", "MergeMin", "MergeTopBottom", "FixedSize", "OptimalSize", "NPlatePerCellLine", "BatchieEnsemble", "holdout_balanced", "holdout_random"]
    name = only or str(rng.choice(names))
    sizes = [int((screen.plate_names == p).sum()) for p in np.unique(screen.plate_names)]
    per_sample = [int((screen.sample_names == s).sum()) for s in np.unique(screen.sample_names)]
    if name == "Pairwise":
        p = dict(subset_size=int(rng.integers(1, 4)), anchor_size=int(rng.choice([0, 0, 1, 2, 3])))
        g = R.PairwisePlateGenerator(**p)
        return "generator", name, p, g.generate_plates
    if name == "PlatePermutation":
        force = None
        if rng.random() < 0.5:
            pl = list(np.unique(screen.plate_names))
            force = [str(x) for x in rng.choice(pl, size=int(rng.integers(1, len(pl) + 1)), replace=False)]
            if rng.random() < 0.2:
                force.append("no_such_plate")
            if rng.random() < 0.3:
                force.insert(int(rng.integers(0, len(force) + 1)), force[int(rng.integers(len(force)))])  # a name listed twice
            if rng.random() < 0.3:
                force = np.array(force)  # a numpy array of names instead of a list
        p = dict(force_include_plate_names=force)
        g = R.PlatePermutationPlateGenerator(**p)
        return "generator", name, p, g.generate_plates
    if name == "SampleSegregating":
        choices = [1, 2, 3, 5, 8, 1000] + per_sample  # includes samples with exactly the limit
        p = dict(max_plate_size=as_given(rng, int(rng.choice(choices))))
        g = R.SampleSegregatingPermutationPlateGenerator(**p)
        return "generator", name, p, g.generate_plates
    if name == "MergeMin":
        p = dict(min_size=int(rng.choice([0, 1, 2, 3, 5, 8, 13, 1000] + sizes)))
        s = R.MergeMinPlateSmoother(**p)
        return "smoother", name, p, s.smooth_plates
    if name == "MergeTopBottom":
        p = dict(n_iterations=int(rng.integers(0, 5)))
        s = R.MergeTopBottomPlateSmoother(**p)
        return "smoother", name, p, s.smooth_plates
    if name == "FixedSize":
        p = dict(plate_size=int(rng.choice([1, 2, 3, 5, 8] + sizes)))
        s = R.FixedSizeSmoother(**p)
        return "smoother", name, p, s.smooth_plates
    if name == "OptimalSize":
        s = R.OptimalSizeSmoother()
        return "smoother", name, {}, s.smooth_plates
    if name == "NPlatePerCellLine":
        p = dict(min_n_cell_line_plates=int(rng.integers(0, 5)))
        s = R.NPlatePerCellLineSmoother(**p)
        return "smoother", name, p, s.smooth_plates
    if name == "BatchieEnsemble":
        p = dict(min_size=int(rng.choice([1, 2, 4, 8])), n_iterations=int(rng.integers(0, 3)), min_n_cell_line_plates=int(rng.integers(0, 3)))
        s = R.BatchieEnsemblePlateSmoother(**p)
        return "smoother", name, p, s.smooth_plates
    if name == "holdout_balanced":
        f = float(rng.choice(HOLDOUT_FRACTIONS + [float(rng.random())] * 3))
        return "holdout", name, dict(fraction=f), lambda scr, r: R.create_plate_balanced_holdout_set_among_masked_plates(scr, f, r)
    if name == "holdout_random":
        f = float(rng.choice(HOLDOUT_FRACTIONS + [float(rng.random())] * 3))
        return "holdout", name, dict(fraction=f), lambda scr, r: R.create_random_holdout(scr, f, r)
    raise KeyError(name)


def screen_fingerprint(kit, s):
    return [kit.array_hash(x) for x in (s.treatment_names, s.treatment_doses, s.sample_names, s.plate_names, s.observations, s.observation_mask, s.treatment_ids, s.sample_ids, s.plate_ids)]


def rng_state_variant(rng, seed_rng):
    """generator state: fresh, advanced, or shared across consecutive operations"""
    u = seed_rng.random()
    if u < 0.4:
        return np.random.default_rng(int(seed_rng.integers(0, 2**31))), "fresh"
    if u < 0.7:
        g = np.random.default_rng(int(seed_rng.integers(0, 2**31)))
        g.random(int(seed_rng.integers(1, 50)))
        return g, "advanced"
    return rng, "shared"
