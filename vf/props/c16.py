"""C16 - the k-per-sample policy yields batches with zero or exactly k plates per sample."""
import itertools

import numpy as np

from .. import kit

PROP, NUM = "C16", 16
LEVEL = "exploration"
SHARDS = {"quick": 8, "thorough": 16}
TIMEOUT = {"quick": 900, "thorough": 5400}
RULE = (
    "exhaustive DFS over all selection histories (every allowed plate is made the best-scoring one in turn, through the "
    "real select_next_plate + KPerSamplePlatePolicy) for every screen shape with <=3 samples x <=4 single-sample plates "
    "and k in 1..4, with and without plates already observed; random walks with random scores for up to 6 samples x 8 "
    "plates, k<=5. A case is one reachable (screen, k, batch-state) at which the filter was evaluated; distinct = "
    "(shape, observed pattern, k, batch set); non-trivial = the batch is non-empty or some sample has fewer than k plates"
)
ASSUMPTIONS = ["states are memoised on the set of batch plates (quick: <=9 plates; thorough: always) or on per-sample batch counts (larger shapes)"]
REQUIRED = {"big_panel_steps_with_a_sample_id_above_256_in_the_batch": {"quick": 40, "thorough": 300}, "selections_from_a_partial_set_of_scores": {"quick": 60, "thorough": 800}, "batches_given_as_tuple_set_frozenset_or_dict_keys": {"quick": 100, "thorough": 1500}, "multi_sample_refusals_after_earlier_calls": {"quick": 40, "thorough": 300}, "walk_steps_with_mostly_posinf_scores": {"quick": 80, "thorough": 1200}, "screens_with_interleaved_plate_ids": {"quick": 60, "thorough": 400}, "holders_not_in_plate_id_order": {"quick": 1000, "thorough": 8000}, "states_checked": {"quick": 3000, "thorough": 20000}, "walk_steps": {"quick": 300, "thorough": 5000}, "multi_sample_refusals": {"quick": 40, "thorough": 250}, "multi_sample_layout_1": {"quick": 6, "thorough": 40}, "batches_revealed_in_place": {"quick": 60, "thorough": 800}}


def build_screen(Screen, shape, observed_plates=(), multi=None, multi_where=2, perm=None):
    """shape: plates per sample.  Every plate holds 1-2 rows of its sample.  perm: relabels the plates, so that the
    plates of one sample are not neighbours in plate-id order."""
    tn, td, sn, pn = [], [], [], []
    pid = 0
    names = []
    for s, np_ in enumerate(shape):
        for j in range(np_):
            name = "p%02d" % (pid if perm is None else int(perm[pid]))
            names.append((name, s))
            for r in range(1 + (pid % 2)):
                tn.append(["a", "b"])
                td.append([1.0, 2.0])
                sn.append("s%d" % s)
                pn.append(name)
            pid += 1
    if multi is not None:
        # rows of another sample on plate `multi`: in front of, between or behind the plate's own rows
        pname = "p%02d" % multi
        own = [i for i, p in enumerate(pn) if p == pname]
        if len(own) < 2:
            tn.append(["a", "b"])
            td.append([1.0, 2.0])
            sn.append(sn[own[0]])
            pn.append(pname)
            own.append(len(pn) - 1)
        at = {0: own[0], 1: own[-1], 2: len(pn)}[multi_where % 3]  # insert before the first, before the last, at the end
        for seq, x in ((tn, ["a", "b"]), (td, [1.0, 2.0]), (sn, "s_other"), (pn, pname)):
            seq.insert(at, x)
        if multi_where >= 3:
            # and a second foreign sample elsewhere on the plate
            for seq, x in ((tn, ["a", "b"]), (td, [1.0, 2.0]), (sn, "s_third"), (pn, pname)):
                seq.insert(own[-1] + 1, x)
    pn = np.array(pn, dtype=str)
    obs = (np.arange(len(pn)) + 1.0) / (len(pn) + 2.0)
    mask = np.isin(pn, ["p%02d" % p for p in observed_plates])
    return Screen(treatment_names=np.array(tn, dtype=str), treatment_doses=np.array(td, dtype=float), sample_names=np.array(sn, dtype=str), plate_names=pn, observations=obs, observation_mask=mask)


def check_state(rec, k, sample_of, unobserved, batch, allowed, w):
    """The statement's clauses at one recorded state."""
    batch = list(batch)
    remaining = [p for p in unobserved if p not in batch]
    cnt = {}
    for p in batch:
        cnt[sample_of[p]] = cnt.get(sample_of[p], 0) + 1
    rem_cnt = {}
    for p in remaining:
        rem_cnt[sample_of[p]] = rem_cnt.get(sample_of[p], 0) + 1
    rec.count("states_checked")
    rec.check(set(allowed) <= set(remaining) and len(set(allowed)) == len(allowed), "C16/allowed/not-subset-of-remaining", lambda: "allowed %r, remaining %r, batch %r" % (allowed, remaining, batch), w)
    in_progress = [s for s, c in cnt.items() if 1 <= c <= k - 1]
    rec.check(len(in_progress) <= 1, "C16/prefix/two-incomplete-samples", lambda: "batch %r has incomplete samples %r (k=%d)" % (batch, in_progress, k), w)
    if in_progress:
        s = in_progress[0]
        rec.check(all(sample_of[p] == s for p in allowed), "C16/in-progress/foreign-sample-allowed", lambda: "sample %r in progress but allowed %r" % (s, allowed), w)
        rec.check(len(allowed) >= 1, "C16/in-progress/nothing-allowed", lambda: "sample %r has %d of %d plates in the batch and no plate is allowed" % (s, cnt[s], k), w)
    for p in allowed:
        s = sample_of[p]
        if cnt.get(s, 0) == 0:
            rec.check(rem_cnt.get(s, 0) >= k, "C16/open/too-few-plates-left", lambda: "sample %r opened with %d plates left (k=%d)" % (s, rem_cnt.get(s, 0), k), w)
    if len(batch) % k == 0:
        rec.check(all(c in (0, k) for c in cnt.values()), "C16/batch/sample-not-zero-or-k", lambda: "batch %r of %d plates gives per-sample counts %r (k=%d)" % (batch, len(batch), cnt, k), w)
    rec.check(all(c <= k for c in cnt.values()), "C16/batch/sample-above-k", lambda: "per-sample counts %r exceed k=%d" % (cnt, k), w)


def run_shard(rec, tier, seed, shard, nshards):
    from batchie.data import Screen
    from batchie.policies.k_per_sample import KPerSamplePlatePolicy
    from batchie.scoring.main import select_next_plate, ChunkedScoresHolder

    rng = kit.rng_for(seed, NUM, shard)

    order_rng = np.random.default_rng(int(rng.integers(0, 2**31)))

    def holder_for(ids, best=None, scores=None):
        h = ChunkedScoresHolder(len(ids))
        ids = list(ids)
        if len(ids) > 1 and order_rng.random() < 0.6:
            # score chunks are combined in whatever order the files are listed: the holder is not sorted by plate id
            ids = [ids[i] for i in order_rng.permutation(len(ids))]
            rec.count("holders_not_in_plate_id_order")
        for p in ids:
            h.add_score(int(p), (0.0 if p == best else 1.0) if scores is None else float(scores[p]))
        return h

    def step(screen, policy, unobserved, batch, best=None, scores=None, as_array=False, scored=None):
        """returns (allowed ids as recorded at the policy, selected id or None)"""
        recd = {}
        orig = policy.filter_eligible_plates

        def wrapped(batch_plates, unobserved_plates, rng):
            res = orig(batch_plates=batch_plates, unobserved_plates=unobserved_plates, rng=rng)
            recd["allowed"] = [int(p.plate_id) for p in res]
            recd["batch"] = sorted(int(p.plate_id) for p in batch_plates)
            recd["unobs"] = sorted(int(p.plate_id) for p in unobserved_plates)
            return res

        policy.filter_eligible_plates = wrapped
        try:
            bids = list(batch)
            if as_array and len(bids) <= 1:
                bids = np.array(bids, dtype=int)  # e.g. np.array([0]): a falsy but non-empty batch
            elif as_array and len(bids) >= 2:
                # the same batch as another kind of collection
                how_ = int(order_rng.integers(4))
                bids = [tuple(bids), set(bids), frozenset(bids), dict.fromkeys(bids).keys()][how_]
                rec.count("batches_given_as_tuple_set_frozenset_or_dict_keys")
            sel = select_next_plate(holder_for(unobserved if scored is None else scored, best, scores), screen, policy, batch_plate_ids=bids, rng=np.random.default_rng(0))
        finally:
            del policy.filter_eligible_plates
        return recd, (None if sel is None else int(sel.plate_id))

    # ------------------------------------------------ exhaustive DFS
    max_s, max_p = 3, 4
    shapes = {tuple(sorted(s, reverse=True)) for s in itertools.product(range(0, max_p + 1), repeat=max_s) if sum(s) > 0}
    if tier == "thorough":
        # four samples with up to three plates each (<= 12 plates, memoised on the batch set), and 4 x 5 / 5 x 4
        # shapes memoised on per-sample counts
        shapes |= {tuple(sorted(s, reverse=True)) for s in itertools.product(range(1, 4), repeat=4)}
        shapes |= {(5, 5, 5, 5), (5, 4, 3, 2), (4, 4, 4, 4, 4), (6, 6, 2), (6, 1, 1, 1)}
    shapes = sorted(shapes)
    configs = []
    for shape in shapes:
        shape = tuple(x for x in shape if x > 0)
        for k in range(1, 5):
            configs.append((shape, k, ()))
            tot = sum(shape)
            if tot >= 2:
                configs.append((shape, k, "rand"))
    for ci, (shape, k, obs_mode) in enumerate(configs):
        if ci % nshards != shard:
            continue
        tot = sum(shape)
        observed = ()
        if obs_mode == "rand":
            observed = tuple(sorted(int(x) for x in rng.choice(tot, size=int(rng.integers(1, max(2, tot // 2 + 1))), replace=False)))
        perm = rng.permutation(tot) if rng.random() < 0.5 else None
        if perm is not None:
            rec.count("screens_with_interleaved_plate_ids")
        screen = build_screen(Screen, shape, observed, perm=perm)
        policy = KPerSamplePlatePolicy(k)
        plate_name_to_id = dict(zip([str(x) for x in screen.plate_mapping[0]], [int(x) for x in screen.plate_mapping[1]]))
        sample_of = {}
        for p in screen.plates:
            sample_of[int(p.plate_id)] = int(p.sample_ids[0])
        unobserved = sorted(int(p.plate_id) for p in screen.plates if not p.is_observed)
        canonical = tot > (9 if tier == "quick" else 11)
        seen = set()

        def key(batch):
            if canonical:
                c = {}
                for p in batch:
                    c[sample_of[p]] = c.get(sample_of[p], 0) + 1
                return tuple(sorted(c.items()))
            return frozenset(batch)

        stack = [()]
        while stack:
            batch = stack.pop()
            kk = key(batch)
            if kk in seen:
                continue
            seen.add(kk)
            w = {"shape": list(shape), "k": k, "observed": list(observed), "batch": list(batch)}
            try:
                recd, _sel = step(screen, policy, unobserved, batch, best=None)
            except Exception as e:
                rec.case(None, nontrivial=False)
                rec.violation("C16/policy/raises", "select_next_plate raised %r" % (e,), w)
                continue
            rec.case(("dfs", shape, observed, k, tuple(sorted(batch))), nontrivial=(len(batch) > 0 or any(x < k for x in shape)))
            if "allowed" not in recd:
                rec.count("policy_not_reached")
                continue
            rec.check(recd["batch"] == sorted(batch) and recd["unobs"] == sorted(p for p in unobserved if p not in batch), "C16/inputs/policy-handed-wrong-sets", lambda: "policy received batch %r / unobserved %r for batch %r" % (recd["batch"], recd["unobs"], list(batch)), w)
            allowed = recd["allowed"]
            check_state(rec, k, sample_of, unobserved, batch, allowed, w)
            for p in allowed:
                # make p the best-scoring plate and let the real selection pick it
                try:
                    _r, sel = step(screen, policy, unobserved, batch, best=p)
                except Exception as e:
                    rec.violation("C16/policy/raises", "select_next_plate raised %r" % (e,), w)
                    continue
                rec.count("branches_followed")
                if sel != p:
                    rec.count("selection_not_the_best_allowed")  # C06 territory; follow the allowed plate anyway
                stack.append(tuple(batch) + (p,))
        rec.count("dfs_configs")
        if ci == 5:
            rec.sample({"kind": "dfs", "shape": list(shape), "k": k, "observed": list(observed), "states": len(seen)})

    # ------------------------------------------------ random walks on larger screens
    n_walks = 40 if tier == "quick" else 300
    for wi in range(n_walks + 1):
        ns = int(rng.integers(1, 7))
        shape = tuple(int(x) for x in rng.integers(1, 9, size=ns))
        k = int(rng.integers(1, 6))
        big_panel = wi == n_walks
        if big_panel:
            # a panel the size of a real cell-line collection: sample ids run past 256 (beyond CPython's shared small
            # integers, past one byte), 1-3 plates per sample; the walk is capped, not exhaustive
            ns = int(rng.integers(270, 340))
            k = int(rng.integers(2, 4))
            shape = tuple(int(x) for x in rng.integers(k - 1, k + 2, size=ns))
            rec.count("walks_on_a_panel_of_more_than_256_samples")
        tot = sum(shape)
        observed = tuple(sorted(int(x) for x in rng.choice(tot, size=int(rng.integers(0, tot // 2 + 1)), replace=False)))
        perm = rng.permutation(tot) if rng.random() < 0.6 else None
        if perm is not None:
            rec.count("screens_with_interleaved_plate_ids")
        screen = build_screen(Screen, shape, observed, perm=perm)
        policy = KPerSamplePlatePolicy(k)
        sample_of = {int(p.plate_id): int(p.sample_ids[0]) for p in screen.plates}
        unobserved = sorted(int(p.plate_id) for p in screen.plates if not p.is_observed)
        batch = ()
        trace = []
        multi_batch = bool(rng.random() < 0.5)
        for _ in range(2 * tot + 2 if not big_panel else 45):
            scores = {p: float(rng.choice([0.0, 1.0, 2.0, float("-inf"), rng.normal()])) for p in unobserved}
            if big_panel:
                # the late samples of the panel are the attractive ones
                for p in unobserved:
                    if sample_of[p] < 257:
                        scores[p] = scores[p] + 50.0 if np.isfinite(scores[p]) else 50.0
                if batch and sample_of[batch[-1]] >= 257:
                    rec.count("big_panel_steps_with_a_sample_id_above_256_in_the_batch")
            if rng.random() < 0.3:
                # overflowed scores: +inf on most plates (often on every plate the policy allows), so that the choice
                # is made among equal +inf values
                for p in unobserved:
                    if rng.random() < 0.8:
                        scores[p] = float("inf")
                rec.count("walk_steps_with_mostly_posinf_scores")
            w = {"shape": list(shape), "k": k, "observed": list(observed), "batch": list(batch), "history": trace[-12:]}
            try:
                arr = bool(rng.random() < 0.5)
                scored = None
                if len(unobserved) >= 3 and rng.random() < 0.3:
                    # only some of the score files are in yet (one chunk of several): the selection is made among the
                    # plates that have a score
                    scored = sorted(int(x) for x in rng.choice(unobserved, size=int(rng.integers(1, len(unobserved))), replace=False))
                    rec.count("selections_from_a_partial_set_of_scores")
                try:
                    recd, sel = step(screen, policy, unobserved, batch, scores=scores, as_array=arr, scored=scored)
                except ValueError:
                    if scored is None:
                        raise
                    # none of the plates the policy allows has a score yet: the selection refuses (nothing to choose from)
                    rec.count("partial_score_sets_without_an_allowed_plate")
                    continue
                if arr and len(batch) <= 1:
                    rec.count("batches_passed_as_numpy_array")
                if sel is not None and "allowed" in recd:
                    rec.count("oracle_evals")
                    rec.check(sel in recd["allowed"] and (scored is None or sel in scored), "C16/selection/not-among-the-allowed", lambda: "plate %r was selected; the policy allows %r%s" % (sel, recd["allowed"], "" if scored is None else ", scores exist for %r" % (scored,)), w)
            except Exception as e:
                rec.violation("C16/policy/raises", "select_next_plate raised %r" % (e,), w)
                break
            rec.case(("walk", shape, observed, k, tuple(sorted(batch)), len(trace)))
            rec.count("walk_steps")
            if "allowed" in recd:
                rec.check(recd["batch"] == sorted(batch) and recd["unobs"] == sorted(p for p in unobserved if p not in batch), "C16/inputs/policy-handed-wrong-sets", lambda: "policy received batch %r / unobserved %r; the batch is %r and the unobserved plates outside it are %r" % (recd["batch"], recd["unobs"], sorted(batch), sorted(p for p in unobserved if p not in batch)), w)
                check_state(rec, k, sample_of, unobserved, batch, recd["allowed"], w)
            if sel is None or (multi_batch and len(batch) and len(batch) % k == 0 and rng.random() < 0.5):
                if not multi_batch or not batch:
                    break
                # the batch goes to the lab: its plates are revealed IN PLACE on the same Screen object, a new batch starts
                m = np.isin(np.asarray(screen.plate_ids), list(batch))
                screen.set_observed(m, np.asarray(screen.observations)[m].copy())
                unobserved = [p for p in unobserved if p not in batch]
                trace.append("reveal-in-place:%s" % (list(batch),))
                rec.count("batches_revealed_in_place")
                batch = ()
                if not unobserved:
                    break
                continue
            trace.append(sel)
            batch = batch + (sel,)
        if wi == 0 and shard == 0:
            rec.sample({"kind": "walk", "shape": list(shape), "k": k, "observed": list(observed), "selection_history": trace})

    # ------------------------------------------------ multi-sample plates refused
    for mi in range(6 if tier == "quick" else 18):
        shape = tuple(int(x) for x in rng.integers(1, 4, size=int(rng.integers(1, 4))))
        tot = sum(shape)
        bad = int(rng.integers(tot))
        screen = build_screen(Screen, shape, (), multi=bad, multi_where=mi % 6)
        rec.count("multi_sample_layout_%d" % (mi % 6))
        policy = KPerSamplePlatePolicy(int(rng.integers(1, 4)))
        unobserved = sorted(int(p.plate_id) for p in screen.plates)
        rec.case(("multi", shape, bad))
        rec.count("multi_sample_refusals")
        rec.count("oracle_evals")
        try:
            step(screen, policy, unobserved, (), best=None)
            rec.violation("C16/multi-sample/accepted", "a plate with two samples was accepted by the policy", {"shape": list(shape), "plate": bad})
        except ValueError:
            pass
        except Exception as e:
            rec.violation("C16/multi-sample/wrong-exception", "multi-sample plate raised %r instead of ValueError" % (e,), {"shape": list(shape)})

    # ------------------------------------------------ multi-sample plates refused by a policy object with a past
    for hi in range(12 if tier == "quick" else 60):
        shape = tuple(int(x) for x in rng.integers(1, 4, size=int(rng.integers(2, 5))))
        tot = sum(shape)
        variant = ["merge", "observed-in-batch", "other-screen"][hi % 3]
        k = int(rng.integers(1, 4))
        policy = KPerSamplePlatePolicy(k)
        w = {"shape": list(shape), "k": k, "history": variant}
        rec.case(("multi-past", shape, variant, hi))
        try:
            if variant == "observed-in-batch":
                # the initial plate (observed, two samples) is listed among the batch's plates on a later call
                bad = int(rng.integers(tot))
                screen = build_screen(Screen, shape, (bad,), multi=bad, multi_where=hi % 6)
                unobserved = sorted(int(p.plate_id) for p in screen.plates if not p.is_observed)
                bad_id = [int(p.plate_id) for p in screen.plates if p.is_observed][0]
                if not unobserved:
                    continue
                _r, sel = step(screen, policy, unobserved, (), best=None)  # every plate handed over holds one sample
                later_batch = (bad_id,) if sel is None else (sel, bad_id)
            else:
                screen = build_screen(Screen, shape, ())
                unobserved = sorted(int(p.plate_id) for p in screen.plates)
                _r, sel = step(screen, policy, unobserved, (), best=None)
                if sel is not None and rng.random() < 0.5:
                    step(screen, policy, unobserved, (sel,), best=None)
                if variant == "merge":
                    # two plates of different samples are merged in place on the same Screen object
                    pls = screen.plates
                    a_ = pls[int(rng.integers(len(pls)))]
                    others = [p for p in pls if int(p.sample_ids[0]) != int(a_.sample_ids[0])]
                    a_.merge(others[int(rng.integers(len(others)))])
                else:
                    # the same policy object is asked about another screen that has a two-sample plate
                    screen = build_screen(Screen, shape, (), multi=int(rng.integers(tot)), multi_where=hi % 6)
                unobserved = sorted(int(p.plate_id) for p in screen.plates)
                later_batch = ()
        except Exception as e:
            rec.did_not_return("multi-past-setup", e)
            continue
        rec.count("multi_sample_refusals_after_earlier_calls")
        rec.count("oracle_evals")
        try:
            step(screen, policy, [p for p in unobserved if p not in later_batch], later_batch, best=None)
            rec.violation("C16/multi-sample/accepted", "a plate with two samples was accepted by a policy object that had answered for single-sample plates before (%s)" % variant, w)
        except ValueError:
            pass
        except Exception as e:
            rec.violation("C16/multi-sample/wrong-exception", "multi-sample plate raised %r instead of ValueError (%s)" % (e, variant), w)


def coverage_extra(tier, counters):
    return {"exhaustive": False, "exhaustive_subspace": "all selection histories for <=3 samples x <=4 plates, k<=4 (%d configurations) enumerated by DFS" % counters.get("dfs_configs", 0)}
