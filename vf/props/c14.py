"""C14 - subset and plate views are exact row selections with set-algebra semantics."""
import os
import subprocess
import sys

import numpy as np

from .. import kit, gen

PROP, NUM = "C14", 14
LEVEL = "exploration"
SHARDS = {"quick": 8, "thorough": 16}
TIMEOUT = {"quick": 900, "thorough": 5400}
RULE = (
    "random compositions (up to 40 nodes per screen, nesting depth up to 6) of subset / combine / concat / invert / "
    "get_plate / plates / subset_observed / subset_unobserved / to_screen / unique-condition filter on random screens "
    "with duplicate conditions; reference model: a view is a sorted tuple of parent row indices; after every node all "
    "previously created views are re-checked (aliasing). A case is one node; distinct = (op, operand index tuples, "
    "result index tuple, screen hash); non-trivial = result is neither empty nor the full parent"
)
ASSUMPTIONS = ["Plate.merge (documented to mutate the parent) is not part of the composition language"]
REQUIRED = {"screens_with_nan_or_inf_read_outs": {"quick": 100, "thorough": 1000}, "refusals_between_a_screen_and_its_copy": {"quick": 100, "thorough": 1500}, "plate_views_rechecked_after_merge": {"quick": 300, "thorough": 5000}, "parents_with_rows_marked_observed": {"quick": 200, "thorough": 3000}, "nodes_checked": {"quick": 9000, "thorough": 150000}, "alias_rechecks": {"quick": 100000, "thorough": 1500000}, "cross_parent_refusals": {"quick": 300, "thorough": 5000}}

ATTRS = ["plate_ids", "sample_ids", "treatment_ids", "sample_names", "treatment_names", "treatment_doses", "observations", "observation_mask"]


def idx_of(view):
    return tuple(int(i) for i in np.flatnonzero(np.asarray(view.selection_vector)))


def check_view(rec, view, parent, idx, what, w=None, light=False):
    """every per-experiment attribute equals parent.attr[idx] (bytes / values), in parent order"""
    sel = np.asarray(view.selection_vector)
    ok = view.screen is parent and sel.dtype == bool and sel.shape == (parent.size,) and idx_of(view) == tuple(idx)
    rec.check(ok, "C14/view/selection-mismatch", lambda: "%s: selection %r expected %r" % (what, idx_of(view)[:30], tuple(idx)[:30]), w)
    if not ok:
        return False
    ii = np.array(idx, dtype=int)
    good = True
    for a in ATTRS if not light else ATTRS[:3]:
        got = getattr(view, a)
        ref = getattr(parent, a)[ii]
        if got.dtype.kind in "USO":
            eq = kit.str_equal(got, ref)
        else:
            eq = kit.bytes_equal(np.ascontiguousarray(got), np.ascontiguousarray(ref))
        if not rec.check(eq, "C14/view/attribute-mismatch", lambda: "%s: attribute %s differs from parent rows %r" % (what, a, tuple(idx)[:20]), w):
            good = False
    if len(idx):
        # "observed" is a statement about all of the view's rows, whatever type the view object has
        want_obs = bool(np.all(np.asarray(parent.observation_mask)[ii]))
        rec.check(bool(view.is_observed) == want_obs, "C14/view/attribute-mismatch", lambda: "%s: is_observed=%r for a view whose rows have mask %r" % (what, bool(view.is_observed), np.asarray(parent.observation_mask)[ii].tolist()[:12]), w)
    if not light:
        rec.check(view.size == len(idx), "C14/view/size", "%s: size %d for %d rows" % (what, view.size, len(idx)), w)
        pn = parent.plate_names[np.asarray(view.selection_vector)]
        rec.check(kit.str_equal(pn, parent.plate_names[ii]), "C14/view/plate-names", "%s: plate names differ" % what, w)
        ste_p = parent.single_treatment_effects if parent.treatment_arity >= 2 and parent.size <= 25 else None
        if ste_p is not None:
            ste = view.single_treatment_effects
            rec.check(ste is not None and kit.bytes_equal(np.ascontiguousarray(ste), np.ascontiguousarray(ste_p[ii])), "C14/view/attribute-mismatch", "%s: single_treatment_effects differ" % what, w)
        # mappings are the parent's
        rec.check(view.treatment_mapping is parent.treatment_mapping and view.sample_mapping is parent.sample_mapping, "C14/view/mapping-not-parents", "%s: view mappings are not the parent's" % what, w)
    return good


def run_shard(rec, tier, seed, shard, nshards):
    from batchie.data import Screen, ScreenSubset, Plate, filter_dataset_to_unique_treatments

    rng = kit.rng_for(seed, NUM, shard)
    n_screens = {"quick": 60, "thorough": 500}[tier]
    for si in range(n_screens):
        kw = gen.realistic_screen_kwargs(rng, n_rows=(1, 30), n_plates=(1, 6), p_dup=0.35, observed=str(rng.choice(["random", "some", "none", "all"])), arity=int(rng.choice([1, 2, 2])))
        if rng.random() < 0.25:
            # stored read-outs that are not ordinary numbers - failed wells (NaN), saturated ones (inf), exact zeros,
            # negatives - on observed and unobserved rows alike: the views split the screen by its MASK, not by values
            o_ = np.array(kw["observations"], dtype=float)
            for i_ in range(len(o_)):
                if rng.random() < 0.3:
                    o_[i_] = float(rng.choice([float("nan"), float("nan"), float("inf"), 0.0, -1.0]))
            kw["observations"] = o_
            rec.count("screens_with_nan_or_inf_read_outs")
        if si == 1:
            kw = gen.realistic_screen_kwargs(rng, n_samples=(3, 8), n_drugs=(4, 8), n_rows=(1500, 4500), n_plates=(10, 60), p_dup=0.3, observed="random")
            rec.count("large_screens")
        root = Screen(**kw)
        parents = [root]
        # pool entries: [view, parent_index, idx tuple, depth, frozen bytes of selection]
        pool = []
        shash = kit.array_hash(root.observations)

        def add(view, pi, idx, depth, what, w=None):
            rec.case((what, shash, pi, tuple(idx)), nontrivial=0 < len(idx) < parents[pi].size)
            rec.count("nodes_checked")
            rec.count("op_" + what.split("(")[0])
            check_view(rec, view, parents[pi], idx, what, w)
            pool.append([view, pi, tuple(idx), depth, kit.raw_bytes(np.asarray(view.selection_vector))])
            rec.maxi("max_depth", depth)

        def recheck(exclude_obj=None):
            for ent in pool:
                rec.count("alias_rechecks")
                v, pi, idx, _, frozen = ent
                same = kit.raw_bytes(np.asarray(v.selection_vector)) == frozen
                if not rec.check(same, "C14/alias/earlier-view-changed", "an earlier view's selection changed after a later operation", {"idx": list(idx)[:30]}):
                    ent[4] = kit.raw_bytes(np.asarray(v.selection_vector))
                else:
                    check_view(rec, v, parents[pi], idx, "recheck", light=True)

        def pick(pi=None, max_depth=6):
            c = [e for e in pool if (pi is None or e[1] == pi) and e[3] < max_depth]
            return c[int(rng.integers(len(c)))] if c else None

        n_nodes = int(rng.integers(15, 41))
        for ni in range(n_nodes):
            op = str(rng.choice(["subset_screen", "subset_view", "subset_view", "combine", "concat", "invert", "get_plate", "plates", "observed", "unobserved", "observed", "to_screen", "unique", "cross", "mark_rows_observed", "merge_plates_then_ask_views"]))
            pi = int(rng.integers(len(parents)))
            P = parents[pi]
            try:
                if op == "mark_rows_observed":
                    # the caller marks an arbitrary selection observed (not whole plates): every view reads through
                    # to the parent, and the observed / unobserved views follow the mask row by row
                    #   done on a private copy of the parent: a selection that cuts through plates leaves a screen that
                    #   the constructor would refuse, so nothing else in this history is asked to cope with it
                    from batchie.data import Screen as _Screen

                    Q = _Screen(treatment_names=P.treatment_names.copy(), treatment_doses=P.treatment_doses.copy(), sample_names=P.sample_names.copy(), plate_names=P.plate_names.copy(), observations=P.observations.copy(), observation_mask=P.observation_mask.copy(), control_treatment_name=P.control_treatment_name)
                    m = _mask(rng, Q.size)
                    whole_plates = bool(rng.random() < 0.5)
                    if whole_plates:
                        # the results of whole plates arrive (what the lab delivers)
                        un_ = [p_ for p_ in Q.plates if not p_.is_observed]
                        m = np.zeros(Q.size, dtype=bool)
                        for p_ in un_:
                            if rng.random() < 0.6:
                                m |= np.asarray(p_.selection_vector)
                    if not m.any():
                        continue
                    # views handed out BEFORE the results arrive, each already asked for its size and rows
                    held = [("subset_observed", Q.subset_observed()), ("subset_unobserved", Q.subset_unobserved()), ("subset", Q.subset(_mask(rng, Q.size)))] + [("plate", p_) for p_ in Q.plates[:3]]
                    held = [(n_, v_) for n_, v_ in held if v_ is not None]
                    _ = [(v_.size, len(v_.observations), v_.n_plates) for _n, v_ in held]
                    Q.set_observed(m, rng.random(int(m.sum())) + 3.0)
                    rec.count("parents_with_rows_marked_observed")
                    for n_, v_ in held:
                        # whatever rows a view stands for now, it is ONE selection of the parent: its size, each of its
                        # attributes and the screen made from it all speak of the same rows
                        rows_now = tuple(int(x) for x in np.flatnonzero(np.asarray(v_.selection_vector)))
                        rec.count("nodes_checked")
                        rec.count("views_held_while_results_were_recorded")
                        check_view(rec, v_, Q, rows_now, "%s view held while rows were marked observed" % n_)
                        rec.check(v_.size == len(v_.sample_ids), "C14/view/size", lambda: "%s view held while rows were marked observed: size %d, %d sample ids" % (n_, v_.size, len(v_.sample_ids)))
                        if whole_plates:
                            ts_ = v_.to_screen()
                            rec.check(ts_.size == v_.size, "C14/view/size", lambda: "%s view held while plates were marked observed: size %d, to_screen() has %d rows" % (n_, v_.size, ts_.size))
                    qm = np.asarray(Q.observation_mask)
                    for which in ("observed", "unobserved"):
                        want = np.flatnonzero(qm if which == "observed" else ~qm)
                        res = Q.subset_observed() if which == "observed" else Q.subset_unobserved()
                        rec.count("nodes_checked")
                        if want.size == 0:
                            rec.check(res is None, "C14/mask-split/expected-none", "%s view of an empty selection is not None" % which)
                        elif rec.check(res is not None, "C14/mask-split/none", "%s view is None although %d rows qualify" % (which, want.size)):
                            check_view(rec, res, Q, tuple(int(x) for x in want), "subset_%s after marking rows observed" % which, light=True)
                elif op == "merge_plates_then_ask_views":
                    # plate views that were already asked for their id / name, then two plates of the screen are merged
                    # in place (the parent renumbers its plates): every view still reports what the parent holds at its rows
                    from batchie.data import Screen as _Screen

                    Q = _Screen(treatment_names=P.treatment_names.copy(), treatment_doses=P.treatment_doses.copy(), sample_names=P.sample_names.copy(), plate_names=P.plate_names.copy(), observations=P.observations.copy(), observation_mask=P.observation_mask.copy(), control_treatment_name=P.control_treatment_name)
                    views = list(Q.plates)
                    if len(views) < 3:
                        continue
                    _ = [(int(v.plate_id), str(v.plate_name), int(v.n_plates)) for v in views]
                    i_, j_ = (int(x) for x in rng.choice(len(views), size=2, replace=False))
                    # selections taken INSIDE the plate views before the merge (every row / some rows of the view): a
                    # selection of a selection is a row set of its own, it does not follow the outer view when that grows
                    inner = []
                    for v in views:
                        for full_ in (True, False):
                            m_ = np.ones(v.size, dtype=bool) if full_ else (rng.random(v.size) < 0.6)
                            sv_ = v.subset(m_)
                            inner.append((sv_, tuple(int(x) for x in np.flatnonzero(np.asarray(v.selection_vector))[m_]), full_))
                    views[i_].merge(views[j_])
                    for sv_, rows_then, full_ in inner:
                        rec.count("nodes_checked")
                        rec.count("inner_selections_held_across_a_merge")
                        check_view(rec, sv_, Q, rows_then, "a selection of %s rows of a plate view, held while plates were merged" % ("all" if full_ else "some"), light=True)
                    rec.count("plate_views_rechecked_after_merge", len(views))
                    for v in views:
                        rows_ = np.flatnonzero(np.asarray(v.selection_vector))
                        ids_here = set(int(x) for x in np.asarray(Q.plate_ids)[rows_])
                        names_here = set(str(x) for x in np.asarray(Q.plate_names)[rows_])
                        rec.count("nodes_checked")
                        rec.check(len(ids_here) == 1 and int(v.plate_id) in ids_here and str(v.plate_name) in names_here and np.array_equal(np.asarray(v.plate_ids), np.asarray(Q.plate_ids)[rows_]), "C14/view/attribute-mismatch", lambda: "after a merge a plate view reports plate_id %r / name %r, the parent holds ids %r / names %r at its rows" % (int(v.plate_id), str(v.plate_name), sorted(ids_here), sorted(names_here)))
                elif op == "subset_screen":
                    m = _mask(rng, P.size)
                    add(P.subset(m), pi, tuple(np.flatnonzero(m)), 1, "Screen.subset")
                elif op == "subset_view":
                    e = pick(pi)
                    if e is None:
                        continue
                    m = _mask(rng, len(e[2]))
                    before = kit.raw_bytes(np.asarray(e[0].selection_vector))
                    res = e[0].subset(m)
                    rec.check(kit.raw_bytes(np.asarray(e[0].selection_vector)) == before, "C14/subset/outer-view-touched", "subsetting a view changed the outer view's selection", {"outer": list(e[2])[:30]})
                    add(res, pi, tuple(np.array(e[2], dtype=int)[m]), e[3] + 1, "ScreenSubset.subset")
                elif op == "combine":
                    a, b = pick(pi), pick(pi)
                    if a is None:
                        continue
                    add(a[0].combine(b[0]), pi, tuple(sorted(set(a[2]) | set(b[2]))), max(a[3], b[3]) + 1, "combine")
                elif op == "concat":
                    k = int(rng.integers(1, 5))
                    es = [pick(pi) for _ in range(k)]
                    if es[0] is None:
                        continue
                    u = set()
                    for e in es:
                        u |= set(e[2])
                    res = ScreenSubset.concat([e[0] for e in es])
                    add(res, pi, tuple(sorted(u)), max(e[3] for e in es) + 1, "concat(%d)" % k)
                elif op == "invert":
                    e = pick(pi)
                    if e is None:
                        continue
                    add(e[0].invert(), pi, tuple(sorted(set(range(P.size)) - set(e[2]))), e[3] + 1, "invert")
                elif op == "get_plate":
                    pid = int(rng.choice(P.unique_plate_ids)) if P.size else 0
                    add(P.get_plate(pid), pi, tuple(np.flatnonzero(np.asarray(P.plate_ids) == pid)), 1, "get_plate")
                elif op == "plates":
                    pls = P.plates
                    ids = sorted(set(int(x) for x in P.plate_ids))
                    rec.check(len(pls) == len(ids), "C14/plates/count", "plates lists %d plates for %d ids" % (len(pls), len(ids)))
                    cover = []
                    for pl, pid in zip(pls, ids):
                        ix = tuple(np.flatnonzero(np.asarray(P.plate_ids) == pid))
                        add(pl, pi, ix, 1, "plates")
                        cover.extend(ix)
                    rec.check(sorted(cover) == list(range(P.size)), "C14/plates/not-a-partition", "plates do not partition the rows")
                elif op in ("observed", "unobserved"):
                    m = np.asarray(P.observation_mask)
                    want = np.flatnonzero(m if op == "observed" else ~m)
                    res = P.subset_observed() if op == "observed" else P.subset_unobserved()
                    if want.size == 0:
                        rec.check(res is None, "C14/mask-split/expected-none", "%s view of an empty selection is not None" % op)
                        rec.count("nodes_checked")
                    else:
                        if rec.check(res is not None, "C14/mask-split/none", "%s view is None although %d rows qualify" % (op, want.size)):
                            add(res, pi, tuple(want), 1, "subset_" + op)
                elif op == "to_screen":
                    e = pick(pi)
                    if e is None or len(e[2]) == 0 or len(parents) >= 4:
                        continue
                    before = [kit.array_hash(getattr(P, a)) for a in ATTRS] + [kit.array_hash(P.plate_names)]
                    child = e[0].to_screen()
                    ii = np.array(e[2], dtype=int)
                    rec.case(("to_screen", shash, pi, e[2]))
                    rec.count("nodes_checked")
                    rec.count("op_to_screen")
                    w = {"idx": list(e[2])[:30]}
                    for a in ("sample_names", "treatment_names", "treatment_doses", "observations", "observation_mask"):
                        got, ref = getattr(child, a), getattr(P, a)[ii]
                        eq = kit.str_equal(got, ref) if got.dtype.kind in "USO" else kit.bytes_equal(np.ascontiguousarray(got), np.ascontiguousarray(ref))
                        rec.check(eq, "C14/to_screen/rows-differ", "to_screen: %s differs from the selected parent rows" % a, w)
                    rec.check(kit.str_equal(child.plate_names, P.plate_names[ii]), "C14/to_screen/rows-differ", "to_screen: plate names differ", w)
                    rec.check(child.control_treatment_name == P.control_treatment_name, "C14/to_screen/control-name", "to_screen: control name changed", w)
                    # materialised copy: writing into the child must not reach the parent
                    if child.size:
                        child.observations[0] = -123.0
                        child.plate_names[0] = "zz"
                        child.observation_mask[:] = ~child.observation_mask
                    after = [kit.array_hash(getattr(P, a)) for a in ATTRS] + [kit.array_hash(P.plate_names)]
                    rec.check(before == after, "C14/to_screen/shares-memory-with-parent", "writing into a materialised screen changed its parent", w)
                    child = e[0].to_screen()
                    parents.append(child)
                elif op == "unique":
                    e = pick(pi) if rng.random() < 0.7 else None
                    src = e[0] if e else P
                    base = e[2] if e else tuple(range(P.size))
                    res = filter_dataset_to_unique_treatments(src)
                    got = idx_of(res)
                    conds = {}
                    for r in base:
                        conds.setdefault((int(P.sample_ids[r]),) + tuple(int(x) for x in P.treatment_ids[r]), []).append(r)
                    w = {"base": list(base)[:30], "got": list(got)[:30]}
                    rec.case(("unique", shash, pi, base), nontrivial=len(conds) < len(base))
                    rec.count("nodes_checked")
                    rec.count("op_unique")
                    rec.check(res.screen is P and set(got) <= set(base), "C14/unique/not-a-subset", "unique filter selected rows outside the view", w)
                    gc = [(int(P.sample_ids[r]),) + tuple(int(x) for x in P.treatment_ids[r]) for r in got]
                    rec.check(len(set(gc)) == len(gc), "C14/unique/duplicate-condition-kept", "unique filter kept two rows of one condition", w)
                    rec.check(set(gc) == set(conds), "C14/unique/condition-lost", lambda: "unique filter kept %d of %d distinct conditions" % (len(set(gc)), len(conds)), w)
                    pool.append([res, pi, got, (e[3] if e else 0) + 1, kit.raw_bytes(np.asarray(res.selection_vector))])
                elif op == "cross":
                    if len(parents) < 2:
                        continue
                    pj = int(rng.choice([j for j in range(len(parents)) if j != pi]))
                    a, b = pick(pi), pick(pj)
                    if a is None or b is None or parents[pi].size != parents[pj].size and rng.random() < 0.5:
                        pass
                    if a is None or b is None:
                        continue
                    rec.case(("cross", shash, pi, pj), nontrivial=False)
                    for name, f in (("combine", lambda: a[0].combine(b[0])), ("concat", lambda: ScreenSubset.concat([a[0], b[0]]))):
                        rec.count("cross_parent_refusals")
                        rec.count("oracle_evals")
                        try:
                            f()
                            rec.violation("C14/cross-parent/accepted", "%s of views of two different screens was accepted" % name, None)
                        except ValueError:
                            pass
                        except Exception as ex:
                            rec.violation("C14/cross-parent/wrong-exception", "%s of views of different screens raised %r" % (name, ex), None)
                    # a COPY of a screen (copy.copy, copy.deepcopy, a pickle round trip) is another screen: views of
                    # the original and of its copy do not combine either
                    import copy as _copy, pickle as _pickle

                    how_ = int(rng.integers(3))
                    twin = [_copy.copy, _copy.deepcopy, lambda o: _pickle.loads(_pickle.dumps(o))][how_](parents[pi])
                    if twin.size:
                        m1, m2 = _mask(rng, twin.size), _mask(rng, twin.size)
                        va, vb = parents[pi].subset(m1), twin.subset(m2)
                        cases_ = [("combine", lambda: va.combine(vb)), ("combine (copy first)", lambda: vb.combine(va)), ("concat", lambda: ScreenSubset.concat([va, vb]))]
                        pa_, pb_ = parents[pi].plates, twin.plates
                        if pa_ and pb_:
                            cases_.append(("Plate.merge", lambda: pb_[0].merge(pa_[-1])))
                        for name, f in cases_:
                            rec.count("cross_parent_refusals")
                            rec.count("refusals_between_a_screen_and_its_copy")
                            rec.count("oracle_evals")
                            try:
                                f()
                                rec.violation("C14/cross-parent/accepted", "%s of a view of a screen and a view of its %s was accepted" % (name, ["copy.copy", "copy.deepcopy", "pickle round trip"][how_]), None)
                            except ValueError:
                                pass
                            except Exception as ex:
                                rec.violation("C14/cross-parent/wrong-exception", "%s of views of a screen and its copy raised %r" % (name, ex), None)
            except Exception as ex:
                rec.violation("C14/op/raises", "%s raised %r\n%s" % (op, ex, kit.tb()), {"op": op})
                continue
            recheck()
        if si == 0 and shard == 0:
            rec.sample({"kind": "composition", "screen_rows": root.size, "nodes": [{"parent": e[1], "rows": list(e[2])[:12], "depth": e[3]} for e in pool[:6]]})

    # identical-size different screens: a special cross-parent case (same shape, other object)
    kw = gen.realistic_screen_kwargs(rng, n_rows=(6, 6))
    s1, s2 = Screen(**kw), Screen(**kw)
    m = np.array([True, False] * 3)
    rec.count("cross_parent_refusals")
    rec.count("oracle_evals")
    try:
        s1.subset(m).combine(s2.subset(m))
        rec.violation("C14/cross-parent/accepted", "combine of views of two equal-but-distinct screens was accepted", None)
    except ValueError:
        pass

    if tier == "thorough" and shard == 0:
        run_repo_tests(rec)


def _mask(rng, n):
    u = rng.random()
    if u < 0.1:
        return np.zeros(n, dtype=bool)
    if u < 0.2:
        return np.ones(n, dtype=bool)
    return rng.random(n) < rng.choice([0.2, 0.5, 0.8])


# ----------------------------------------------------------------------------- hooks for the repo test-suite
def install_view_invariant(rec, P, sample_every=1):
    """Post-conditions (index-set algebra) on the view operations, for use under foreign workloads."""
    from batchie import data as D

    def ix(v):
        return set(int(i) for i in np.flatnonzero(np.asarray(v.selection_vector)))

    def mk_subset(orig):
        def subset(self, selection_vector):
            before = kit.raw_bytes(np.asarray(self.selection_vector))
            outer = np.flatnonzero(np.asarray(self.selection_vector))
            res = orig(self, selection_vector)
            rec.count("view_ops_observed")
            rec.check(kit.raw_bytes(np.asarray(self.selection_vector)) == before, "C14/subset/outer-view-touched", "subsetting a view changed the outer view", None)
            rec.check(ix(res) == set(int(i) for i in outer[np.asarray(selection_vector)]), "C14/view/selection-mismatch", "nested subset is not the composition of the selections", None)
            return res

        return subset

    def mk_combine(orig):
        def combine(self, other):
            a, b = ix(self), ix(other)
            res = orig(self, other)
            rec.count("view_ops_observed")
            rec.check(ix(res) == a | b and ix(self) == a and ix(other) == b, "C14/view/selection-mismatch", "combine is not the union", None)
            return res

        return combine

    def mk_invert(orig):
        def invert(self):
            a = ix(self)
            res = orig(self)
            rec.count("view_ops_observed")
            rec.check(ix(res) == set(range(self.screen.size)) - a, "C14/view/selection-mismatch", "invert is not the complement", None)
            return res

        return invert

    def mk_to_screen(orig):
        def to_screen(self):
            res = orig(self)
            rec.count("view_ops_observed")
            sel = np.asarray(self.selection_vector)
            ok = kit.str_equal(res.sample_names, self.screen.sample_names[sel]) and kit.bytes_equal(np.ascontiguousarray(res.observations), np.ascontiguousarray(self.screen.observations[sel])) and kit.str_equal(res.plate_names, self.screen.plate_names[sel]) and kit.str_equal(res.treatment_names, self.screen.treatment_names[sel])
            rec.check(ok, "C14/to_screen/rows-differ", "to_screen changed rows or order", None)
            return res

        return to_screen

    P.wrap(D.ScreenSubset, "subset", mk_subset)
    P.wrap(D.ScreenSubset, "combine", mk_combine)
    P.wrap(D.ScreenSubset, "invert", mk_invert)
    P.wrap(D.ScreenSubset, "to_screen", mk_to_screen)


def run_repo_tests(rec):
    from .. import repoimport
    import json, tempfile

    root = os.path.dirname(os.path.dirname(os.path.dirname(os.path.abspath(__file__))))
    out = tempfile.mktemp(prefix="vf-pytest-", suffix=".json", dir=os.environ.get("VERIF_RUN_ROOT") or os.environ.get("VERIF_SCRATCH", "/var/tmp"))
    env = dict(os.environ)
    env["PYTHONPATH"] = root + os.pathsep + os.path.join(repoimport.REPO, "src")
    env["VF_PLUGIN_OUT"] = out
    env["VF_PLUGIN_WANT"] = "C14"
    try:
        p = subprocess.run([sys.executable, "-B", "-m", "pytest", "-q", "-p", "no:cacheprovider", "-p", "vf.pytest_plugin", "src/batchie/data_test.py", "src/batchie/retrospective_test.py", "src/batchie/scoring", "src/batchie/core_test.py"], cwd=repoimport.REPO, env=env, stdout=subprocess.PIPE, stderr=subprocess.STDOUT, timeout=1800)
    except subprocess.TimeoutExpired:
        rec.notes.append("repo test-suite under view invariant: watchdog")
        return
    if os.path.exists(out):
        with open(out) as f:
            r = json.load(f)
        os.remove(out)
        rec.count("testsuite_view_ops_observed", r["counters"].get("view_ops_observed", 0))
        rec.count("oracle_evals", r["counters"].get("oracle_evals", 0))
        for v in r["violations"]:
            rec.violation(v["key"], "[under repo test-suite] " + v["message"], v["witness"])
    else:
        rec.notes.append("repo test-suite under view invariant produced no report: rc=%s" % p.returncode)
