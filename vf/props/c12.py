"""C12 - plates are observed atomically; revealing is exact, monotone, value-preserving."""
import json
import os

import numpy as np

from .. import kit, gen, invariants

PROP, NUM = "C12", 12
LEVEL = "exploration"
SHARDS = {"quick": 8, "thorough": 16}
TIMEOUT = {"quick": 900, "thorough": 5400}
RULE = (
    "histories of 3-15 operations over {mask, unmask, reveal(plate-id sets: fresh, already observed, repeated, unknown), set_observed of a whole plate in place, "
    "save+load, reveal_plate CLI, extract_screen_metadata CLI} on random screens with unique observation tags, branching (an earlier stage is taken up again) with all earlier stages re-checked for changes after every operation; reference "
    "model = dict plate->bool + immutable row table; after every step mask, rows, plate labels, value bits and the JSON "
    "counters are compared with the model; single-shot cases for the constructor clauses, set_observed and the zero/NaN "
    "refusals. A case is one operation of a history or one single-shot; distinct = (op, args, model state hash); "
    "non-trivial = the screen has >=2 plates and the op is not a no-op on the model"
)
ASSUMPTIONS = ["revealing a set consisting only of unknown plate ids may either raise ValueError or return the screen unchanged", "refusal of all-zero values is judged only when every plate of the revealed set is all zero"]
REQUIRED = {"set_observed_on_screens_built_from_arrays_in_another_container": {"quick": 60, "thorough": 1000}, "long_reveal_requests_with_a_far_away_unknown_id": {"quick": 20, "thorough": 300}, "refused_set_observed_calls": {"quick": 200, "thorough": 3000}, "constructor_cases_with_a_library_size_plate": {"quick": 6, "thorough": 6}, "constructor_cases_with_non_bool_mask": {"quick": 60, "thorough": 900}, "view_plate_counts_checked": {"quick": 500, "thorough": 8000}, "cli_refusals_checked": {"quick": 60, "thorough": 800}, "constructor_cases_with_unusual_values": {"quick": 40, "thorough": 600}, "reveals_with_negative_unknown_id": {"quick": 60, "thorough": 900}, "history_steps_checked": {"quick": 2500, "thorough": 40000}, "reveals_checked": {"quick": 600, "thorough": 10000}, "refusals_checked": {"quick": 100, "thorough": 1500}, "constructor_cases": {"quick": 150, "thorough": 2500}, "cli_steps": {"quick": 100, "thorough": 1500}, "earlier_stage_rechecks": {"quick": 10000, "thorough": 150000}, "branches": {"quick": 200, "thorough": 3000}, "in_place_reveals": {"quick": 150, "thorough": 2000}}
N_HIST = {"quick": 960, "thorough": 9600}


class Model:
    def __init__(self, screen):
        self.rows = gen.row_table(screen)  # tag -> (sample, names, doses, plate, mask)
        self.order = [float(x) for x in screen.observations]
        self.plate = {}
        for tag, r in self.rows.items():
            self.plate[r[3]] = r[4]

    def n_unobserved(self):
        return sum(1 for v in self.plate.values() if not v)


def check_against(rec, screen, model, what, w):
    ok = screen.size == len(model.order)
    rec.check(ok, "C12/rows/count-changed", lambda: "%s: %d rows, model has %d" % (what, screen.size, len(model.order)), w)
    if not ok:
        return
    obs = screen.observations
    rec.check(kit.raw_bytes(np.asarray(obs, dtype=np.float64)) == kit.raw_bytes(np.array(model.order)), "C12/rows/value-changed", lambda: "%s: stored observation values or row order changed" % what, w)
    bad_cond = bad_plate = bad_mask = None
    for i in range(screen.size):
        r = model.rows.get(float(obs[i]))
        if r is None:
            continue
        if (str(screen.sample_names[i]), tuple(str(x) for x in screen.treatment_names[i]), tuple(float(x) for x in screen.treatment_doses[i])) != r[:3]:
            bad_cond = i
        if str(screen.plate_names[i]) != r[3]:
            bad_plate = i
        if bool(screen.observation_mask[i]) != model.plate[r[3]]:
            bad_mask = i
    rec.check(bad_cond is None, "C12/rows/conditions-changed", lambda: "%s: row %s conditions changed" % (what, bad_cond), w)
    rec.check(bad_plate is None, "C12/rows/plate-assignment-changed", lambda: "%s: row %s plate label changed" % (what, bad_plate), w)
    rec.check(bad_mask is None, "C12/mask/differs-from-model", lambda: "%s: row %s observed=%s but the model says plate %r observed=%s" % (what, bad_mask, bool(screen.observation_mask[bad_mask]), str(screen.plate_names[bad_mask]), model.plate.get(str(screen.plate_names[bad_mask]))), w)
    # atomicity
    pn = np.asarray(screen.plate_names)
    m = np.asarray(screen.observation_mask)
    mixed = [str(p) for p in np.unique(pn) if m[pn == p].any() and not m[pn == p].all()]
    rec.check(not mixed, "C12/atomic/mixed-plate", lambda: "%s: plates %r have mixed observation status" % (what, mixed), w)


def run_shard(rec, tier, seed, shard, nshards):
    from batchie.data import Screen
    from batchie import retrospective as R
    from batchie.cli import reveal_plate as cli_reveal, extract_screen_metadata as cli_meta

    rng = kit.rng_for(seed, NUM, shard)
    n_hist = N_HIST[tier] // nshards
    with kit.scratch_dir("vf-c12-") as tmp:
        a_h5, b_h5, j_out = os.path.join(tmp, "a.h5"), os.path.join(tmp, "b.h5"), os.path.join(tmp, "m.json")
        for hi in range(n_hist):
            kw = gen.realistic_screen_kwargs(rng, n_rows=(2, 40), n_plates=(1, 8), observed=str(rng.choice(["none", "some", "random", "all"])), singletons=float(rng.choice([0, 0.2])))
            if rng.random() < 0.01:
                kw = gen.realistic_screen_kwargs(rng, n_samples=(3, 8), n_drugs=(4, 8), n_rows=(1500, 4500), n_plates=(10, 60), observed="some")
                rec.count("large_screen_histories")
            many_plates = bool(hi % 10 == 9)
            if many_plates:
                # a screen of many small plates, revealed by long requests (a whole round of 20-40 plates at once)
                kw = gen.realistic_screen_kwargs(rng, n_samples=(2, 5), n_rows=(150, 260), n_plates=(60, 90), observed=str(rng.choice(["none", "some"])))
                rec.count("histories_on_screens_with_many_plates")
            screen = Screen(**kw)
            model = Model(screen)
            trace = []
            n_ops = int(rng.integers(3, 16))
            # every stage of the history stays alive: an operation must never change a screen it was not applied to
            # (histories may branch: an earlier stage is sometimes taken up again)
            stages = []
            for oi in range(n_ops):
                stages.append((screen, dict(model.plate), kit.raw_bytes(np.asarray(screen.observation_mask)), kit.raw_bytes(np.asarray(screen.observations)), kit.array_hash(screen.plate_names)))
                if oi and rng.random() < 0.2:
                    bi = int(rng.integers(len(stages)))
                    screen = stages[bi][0]
                    model.plate = dict(stages[bi][1])
                    trace.append(["branch-from-stage", bi])
                    rec.count("branches")
                op = str(rng.choice(["reveal", "reveal", "reveal", "reveal_cli", "mask", "unmask", "saveload", "meta_cli", "set_observed"], p=[0.26, 0.13, 0.08, 0.1, 0.08, 0.05, 0.12, 0.1, 0.08]))
                name_to_id = dict(zip([str(x) for x in screen.plate_mapping[0]], [int(x) for x in screen.plate_mapping[1]]))
                id_to_name = {v: k for k, v in name_to_id.items()}
                w = {"history": trace[-8:], "op": op, "plates": {k: bool(v) for k, v in model.plate.items()}}
                before_unobs = model.n_unobserved()
                try:
                    if op in ("reveal", "reveal_cli"):
                        ids_all = sorted(id_to_name)
                        k = int(rng.integers(1, min(4, len(ids_all)) + 1))
                        ids = [int(x) for x in rng.choice(ids_all, size=k, replace=False)]
                        flavour = rng.random()
                        if many_plates and len(ids_all) >= 40:
                            k = int(rng.integers(18, 41))
                            ids = [int(x) for x in rng.choice(ids_all, size=k, replace=False)]
                            rec.count("long_reveal_requests")
                            if flavour < 0.5:
                                # ... with an id from another numbering among them (far away from every plate id)
                                ids.insert(int(rng.integers(0, len(ids) + 1)), int(rng.choice([1_000_000, 2**31 - 1, 10**12])))
                                flavour = 1.0
                                rec.count("long_reveal_requests_with_a_far_away_unknown_id")
                        if flavour < 0.2:
                            ids = ids + [ids[0]]  # repeated
                        elif flavour < 0.3:
                            ids = ids + [int(max(ids_all) + 1 + rng.integers(0, 5))]  # plus unknown
                        elif flavour < 0.4:
                            # plus an unknown NEGATIVE id (no plate has one); in front, behind or between
                            ids.insert(int(rng.integers(0, len(ids) + 1)), -int(rng.integers(1, len(ids_all) + 3)))
                            rec.count("reveals_with_negative_unknown_id")
                        elif flavour < 0.45:
                            ids = [int(max(ids_all) + 1 + rng.integers(0, 5))]  # only unknown
                        elif flavour < 0.5 and op == "reveal":
                            ids = np.array(ids)  # array instead of list
                        known = sorted({int(i) for i in np.asarray(ids).tolist() if int(i) in id_to_name})
                        newly = [i for i in known if not model.plate[id_to_name[i]]]
                        trace.append([op, [int(i) for i in np.asarray(ids).tolist()]])
                        w["ids"] = [int(i) for i in np.asarray(ids).tolist()]
                        rec.case((op, tuple(w["ids"]), tuple(sorted(model.plate.items()))), nontrivial=len(model.plate) >= 2 and bool(newly))
                        try:
                            if op == "reveal":
                                new = R.reveal_plates(screen, ids)
                            else:
                                screen.save_h5(a_h5)
                                kit.run_cli(cli_reveal.main, ["--screen", a_h5, "--output", b_h5, "--plate-id"] + [str(int(i)) for i in np.asarray(ids).tolist()])
                                new = Screen.load_h5(b_h5)
                                rec.count("cli_steps")
                        except ValueError as e:
                            if not known:
                                rec.count("unknown_only_reveal_refused")
                                rec.count("history_steps_checked")
                                continue
                            rec.violation("C12/reveal/refused-legitimate", "reveal of plates %r raised %r although their values are non-zero and NaN-free" % (w["ids"], e), w)
                            continue
                        for i in known:
                            model.plate[id_to_name[i]] = True
                        rec.count("reveals_checked")
                        if newly:
                            rec.count("reveals_with_new_plates")
                        screen = new
                        check_against(rec, screen, model, op, w)
                        rec.check(model.n_unobserved() == before_unobs - len(newly), "C12/model/self-check", "model bookkeeping", w)
                        n_un = sum(1 for p in screen.plates if not p.is_observed)
                        rec.check(n_un == before_unobs - len(newly), "C12/reveal/unobserved-count", lambda: "unobserved plates %d -> %d after revealing %d new plates" % (before_unobs, n_un, len(newly)), w)
                        # the same number through every accessor that reports it: the plate counts of the unobserved /
                        # observed views and of the screen
                        uv, ov = screen.subset_unobserved(), screen.subset_observed()
                        rep_un = 0 if uv is None else int(uv.n_plates)
                        rep_ob = 0 if ov is None else int(ov.n_plates)
                        rec.count("view_plate_counts_checked")
                        rec.check(rep_un == n_un and rep_ob == int(screen.n_plates) - n_un and int(screen.n_plates) == len(model.plate), "C12/reveal/unobserved-count", lambda: "after the reveal the unobserved view reports %d plates, the observed view %d, the screen %d; plate by plate there are %d unobserved of %d" % (rep_un, rep_ob, int(screen.n_plates), n_un, len(model.plate)), w)
                        if len(model.plate):
                            one = screen.get_plate(int(sorted(id_to_name)[0]))
                            rec.check(int(one.n_plates) == 1, "C12/reveal/unobserved-count", lambda: "a single plate view reports %d plates" % int(one.n_plates), w)
                    elif op == "set_observed":
                        # marks a whole unobserved plate observed IN PLACE with its stored values: the stage itself changes
                        un = [k_ for k_, v_ in model.plate.items() if not v_]
                        rec.case(("set_observed", tuple(sorted(model.plate.items()))), nontrivial=bool(un))
                        if un:
                            pname = str(rng.choice(un))
                            sel = np.asarray(screen.plate_names == pname)
                            trace.append(["set_observed", pname])
                            screen.set_observed(sel, np.asarray(screen.observations)[sel].copy())
                            model.plate[pname] = True
                            rec.count("in_place_reveals")
                            # this stage was changed on purpose: refresh its snapshot (and those of stages that are the same object)
                            for si_ in range(len(stages)):
                                if stages[si_][0] is screen:
                                    stages[si_] = (screen, dict(model.plate), kit.raw_bytes(np.asarray(screen.observation_mask)), kit.raw_bytes(np.asarray(screen.observations)), kit.array_hash(screen.plate_names))
                            check_against(rec, screen, model, op, w)
                    elif op == "mask":
                        trace.append(["mask"])
                        rec.case(("mask", tuple(sorted(model.plate.items()))), nontrivial=any(model.plate.values()))
                        screen = R.mask_screen(screen)
                        for k_ in model.plate:
                            model.plate[k_] = False
                        check_against(rec, screen, model, op, w)
                    elif op == "unmask":
                        trace.append(["unmask"])
                        rec.case(("unmask", tuple(sorted(model.plate.items()))), nontrivial=not all(model.plate.values()))
                        screen = R.unmask_screen(screen)
                        for k_ in model.plate:
                            model.plate[k_] = True
                        check_against(rec, screen, model, op, w)
                    elif op == "saveload":
                        trace.append(["saveload"])
                        rec.case(("saveload", tuple(sorted(model.plate.items()))), nontrivial=False)
                        screen.save_h5(a_h5)
                        screen = Screen.load_h5(a_h5)
                        check_against(rec, screen, model, op, w)
                    elif op == "meta_cli":
                        trace.append(["meta_cli"])
                        rec.case(("meta", tuple(sorted(model.plate.items()))), nontrivial=len(model.plate) >= 2)
                        screen.save_h5(a_h5)
                        kit.run_cli(cli_meta.main, ["--screen", a_h5, "--output", j_out])
                        with open(j_out) as f:
                            meta = json.load(f)
                        rec.count("cli_steps")
                        n_un = model.n_unobserved()
                        ok = meta.get("n_unobserved_plates") == n_un and meta.get("n_observed_plates") == len(model.plate) - n_un and meta.get("n_plates") == len(model.plate) and meta.get("size") == len(model.order)
                        rec.check(ok, "C12/metadata/counters-differ", lambda: "screen_metadata %r, model: %d plates, %d unobserved, %d rows" % (meta, len(model.plate), n_un, len(model.order)), w)
                    rec.count("history_steps_checked")
                    for si_, (st_scr, st_plate, st_mask, st_obs, st_pn) in enumerate(stages):
                        rec.count("earlier_stage_rechecks")
                        same = kit.raw_bytes(np.asarray(st_scr.observation_mask)) == st_mask and kit.raw_bytes(np.asarray(st_scr.observations)) == st_obs and kit.array_hash(st_scr.plate_names) == st_pn
                        if not rec.check(same, "C12/alias/earlier-screen-changed", lambda: "%s changed the screen of stage %d, to which it was not applied (mask, values or plate labels differ from when that stage was produced)" % (op, si_), w):
                            stages[si_] = (st_scr, st_plate, kit.raw_bytes(np.asarray(st_scr.observation_mask)), kit.raw_bytes(np.asarray(st_scr.observations)), kit.array_hash(st_scr.plate_names))
                except Exception as e:
                    rec.violation("C12/op/raises", "%s raised %r\n%s" % (op, e, kit.tb()), w)
                    break
            if hi == 0 and shard == 0:
                rec.sample({"kind": "history", "rows": len(model.order), "plates": len(model.plate), "ops": trace[:10]})

        # ------------------------------------------------ refusal clauses of reveal
        n_ref = {"quick": 28, "thorough": 280}[tier]
        for _ in range(n_ref):
            kw = gen.realistic_screen_kwargs(rng, n_rows=(4, 24), n_plates=(2, 5), observed="none")
            pn = kw["plate_names"]
            plates = list(np.unique(pn))
            victim = str(rng.choice(plates))
            obs = kw["observations"].copy()
            kind = str(rng.choice(["zero", "nan", "negzero", "almost-zero"]))
            if kind == "almost-zero":
                # all zero except one value that is tiny but not zero: this plate is NOT all zero and must be revealed
                obs[pn == victim] = 0.0
                ix = np.flatnonzero(pn == victim)
                obs[int(rng.choice(ix))] = float(rng.choice([1e-9, -1e-12, 5e-324, 1e-300, 1e-7, -3e-10]))
                kw["observations"] = obs
                s = Screen(**kw)
                name_to_id = dict(zip([str(x) for x in s.plate_mapping[0]], [int(x) for x in s.plate_mapping[1]]))
                rec.case(("refusal", kind, 1))
                rec.count("almost_zero_plates_revealed")
                rec.count("oracle_evals")
                try:
                    out = R.reveal_plates(s, [name_to_id[victim]])
                    rec.check(bool(np.all(np.asarray(out.observation_mask)[pn == victim])) and kit.bytes_equal(out.observations, obs), "C12/reveal/refused-legitimate", "a plate with one tiny non-zero value was not revealed exactly", {"values": obs[pn == victim].tolist()})
                except Exception as e:
                    rec.violation("C12/reveal/refused-legitimate", "revealing a plate whose values are %r (not all zero, no NaN) raised %r" % (obs[pn == victim].tolist(), e), {"values": obs[pn == victim].tolist()})
                continue
            if kind == "zero":
                obs[pn == victim] = 0.0
            elif kind == "negzero":
                obs[pn == victim] = -0.0
            else:
                ix = np.flatnonzero(pn == victim)
                obs[int(rng.choice(ix))] = np.nan
            kw["observations"] = obs
            s = Screen(**kw)
            name_to_id = dict(zip([str(x) for x in s.plate_mapping[0]], [int(x) for x in s.plate_mapping[1]]))
            ids = [name_to_id[victim]]
            if kind == "nan" and len(plates) > 1 and rng.random() < 0.5:
                ids.append(name_to_id[str(rng.choice([p for p in plates if p != victim]))])
            rec.case(("refusal", kind, len(ids)))
            rec.count("refusals_checked")
            rec.count("oracle_evals")
            w = {"kind": kind, "ids": ids, "values": obs[pn == victim].tolist()}
            try:
                R.reveal_plates(s, ids)
                rec.violation("C12/reveal/%s-values-accepted" % ("nan" if kind == "nan" else "all-zero"), "revealing plate %r whose stored values are %s was accepted" % (victim, kind), w)
            except ValueError:
                pass
            except Exception as e:
                rec.violation("C12/reveal/wrong-exception", "refusal raised %r instead of ValueError" % (e,), w)
            if rng.random() < 0.5:
                # the same refusal at the command line: no advanced screen may be published
                rec.count("cli_refusals_checked")
                f_in, f_out = os.path.join(tmp, "ref_in.h5"), os.path.join(tmp, "ref_out.h5")
                if os.path.exists(f_out):
                    os.remove(f_out)
                s.save_h5(f_in)
                try:
                    kit.run_cli(cli_reveal.main, ["--screen", f_in, "--output", f_out, "--plate-id"] + [str(int(i)) for i in ids])
                    rec.violation("C12/reveal/%s-values-accepted" % ("nan" if kind == "nan" else "all-zero"), "the reveal_plate command accepted plate %r whose stored values are %s" % (victim, kind), dict(w, via="cli"))
                except ValueError:
                    rec.check(not os.path.exists(f_out), "C12/reveal/%s-values-accepted" % ("nan" if kind == "nan" else "all-zero"), "the reveal_plate command refused but still wrote an output screen", dict(w, via="cli"))
                except BaseException as e:
                    if isinstance(e, (KeyboardInterrupt,)):
                        raise
                    rec.violation("C12/reveal/wrong-exception", "the reveal_plate command raised %r instead of ValueError" % (e,), dict(w, via="cli"))
            # the healthy plates of the same screen can still be revealed
            if kind != "nan":
                other = [name_to_id[p] for p in plates if p != victim][:1]
                if other:
                    rec.count("oracle_evals")
                    try:
                        R.reveal_plates(s, other)
                    except Exception as e:
                        rec.violation("C12/reveal/refused-legitimate", "healthy plate refused: %r" % (e,), w)

    # ------------------------------------------------ constructor clauses and set_observed
    if shard in (2, 5):
        # a plate of library size with ONE (or two) rows whose status differs from the other hundred thousand
        from batchie.data import Screen as _S

        for nbig, stray in ((150_000, 1), (420_000, 2)) if shard == 2 else ((100_003, 1),):
            tn = np.array([["d%03d" % (i % 211), "d%03d" % ((i * 7 + 1) % 211)] for i in range(997)], dtype=str)[np.arange(nbig + 40) % 997]
            pn_ = np.array(["big"] * nbig + ["small"] * 40, dtype=str)
            for observed_majority in (True, False):
                m_ = np.full(nbig + 40, observed_majority)
                m_[rng.choice(nbig, size=stray, replace=False)] = not observed_majority
                m_[nbig:] = bool(rng.random() < 0.5)
                rec.case(("ctor-mixed-large", nbig, stray, observed_majority))
                rec.count("constructor_cases_with_a_library_size_plate")
                rec.count("oracle_evals")
                try:
                    _S(treatment_names=tn, treatment_doses=np.ones((nbig + 40, 2)), sample_names=np.array(["s%d" % (i % 5) for i in range(nbig + 40)], dtype=str), plate_names=pn_, observations=np.full(nbig + 40, 0.5), observation_mask=m_)
                    rec.violation("C12/constructor/mixed-plate-accepted", "a screen whose %d-row plate has %d row(s) of the other observation status was constructed" % (nbig, stray), {"rows": nbig, "stray_rows": stray, "majority_observed": observed_majority})
                except ValueError:
                    pass
    n_con = {"quick": 30, "thorough": 400}[tier]
    for _ in range(n_con):
        kw = gen.realistic_screen_kwargs(rng, n_rows=(2, 30), n_plates=(1, 6), observed="random")
        n = len(kw["plate_names"])
        # (a) mixed plate rejected
        pn = kw["plate_names"]
        big = [p for p in np.unique(pn) if (pn == p).sum() >= 2]
        if big:
            p = str(rng.choice(big))
            m = kw["observation_mask"].copy()
            ix = np.flatnonzero(pn == p)
            m[ix] = False
            m[int(rng.choice(ix))] = True
            if rng.random() < 0.5:
                m[ix] = ~m[ix]
            rec.case(("ctor-mixed", kit.array_hash(m)))
            rec.count("constructor_cases")
            rec.count("oracle_evals")
            # the mask as a boolean array, or as the 0 / 1 integers (or Python bools in an object array) that files
            # and tables hand over
            m_given = [m, m.astype(np.int64), m.astype(np.int8), m.astype(np.uint8), m.astype(object)][int(rng.integers(5))]
            if m_given.dtype != bool:
                rec.count("constructor_cases_with_non_bool_mask")
            try:
                Screen(**dict(kw, observation_mask=m_given))
                rec.violation("C12/constructor/mixed-plate-accepted", "a screen with a partially observed plate %r was constructed (mask dtype %s)" % (p, m_given.dtype), {"mask": m.tolist(), "plates": pn.tolist()})
            except ValueError:
                pass
        # (b) defaults
        kw_b = {k: v for k, v in kw.items() if k != "observation_mask"}
        if rng.random() < 0.5:
            # given values are given values, whatever they are: NaN, 0, negative, inf on some rows or on a whole plate
            o_ = kw_b["observations"].copy()
            weird = [float("nan"), 0.0, -1.0, float("inf")]
            if rng.random() < 0.5:
                o_[pn == str(rng.choice(np.unique(pn)))] = weird[int(rng.integers(len(weird)))]
            for _ in range(int(rng.integers(1, 4))):
                o_[int(rng.integers(n))] = weird[int(rng.integers(len(weird)))]
            kw_b["observations"] = o_
            kw = dict(kw, observations=o_)
            rec.count("constructor_cases_with_unusual_values")
        try:
            s = Screen(**kw_b)
        except Exception as e:
            rec.violation("C12/constructor/observations-without-mask-not-all-observed", "observations given without a mask were refused: %r" % (e,), {"observations": kw_b["observations"].tolist()[:30], "plates": pn.tolist()[:30]})
            continue
        rec.case(("ctor-default-obs", n))
        rec.count("constructor_cases")
        rec.check(bool(np.all(s.observation_mask)) and s.observation_mask.shape == (n,) and kit.bytes_equal(s.observations, kw["observations"]), "C12/constructor/observations-without-mask-not-all-observed", "observations without a mask are not all observed / values changed", None)
        kw_c = {k: v for k, v in kw_b.items() if k != "observations"}
        s = Screen(**kw_c)
        rec.case(("ctor-default-none", n))
        rec.count("constructor_cases")
        rec.check((not np.any(s.observation_mask)) and s.observation_mask.shape == (n,) and s.observations.shape == (n,), "C12/constructor/no-observations-not-all-unobserved", "a screen without observations is not all unobserved", None)
        rec.count("oracle_evals")
        try:
            Screen(**dict(kw_c, observation_mask=np.ones(n, dtype=bool)))
            rec.violation("C12/constructor/mask-without-observations-accepted", "a mask without observations was accepted", None)
        except ValueError:
            pass
        # (c) set_observed
        kw_s = dict(kw, observation_mask=np.zeros(n, dtype=bool))
        containers = None
        if rng.random() < 0.4 and "observations" in kw:
            # the caller's arrays live in another container: read-only (a memory map, a pandas column under
            # copy-on-write, np.broadcast_to), every second element of a bigger buffer, a reversed view, a window
            o_d, k_o = kit.dress(rng, np.asarray(kw["observations"], dtype=float), kind=str(rng.choice(["readonly", "readonly", "strided", "reversed", "offset"])))
            m_d, k_m = kit.dress(rng, np.zeros(n, dtype=bool), kind=str(rng.choice(["plain", "readonly", "strided", "offset"])))
            kw_s = dict(kw, observations=o_d, observation_mask=m_d)
            containers = (k_o, k_m)
            rec.count("set_observed_on_screens_built_from_arrays_in_another_container")
        s = Screen(**kw_s)
        before = s.observations.copy()
        sel = np.zeros(n, dtype=bool)
        for p in rng.choice(np.unique(pn), size=int(rng.integers(1, len(np.unique(pn)) + 1)), replace=False):
            sel[pn == p] = True
        vals = rng.random(int(sel.sum())) + 2.0
        rec.case(("set_observed", kit.array_hash(sel)))
        rec.count("constructor_cases")
        # a delivery that is refused (wrong number of values, values of the wrong type, a selection that is no mask, a
        # read-only value buffer) changes nothing: no row is revealed by it, no value stored, the counts stay, and the
        # next, correct delivery behaves as if the refused one had never happened
        m0, o0 = s.observation_mask.copy(), s.observations.copy()
        n_un0 = len([p_ for p_ in s.plates if not p_.is_observed])
        bad_calls = [
            ("one value too many", lambda: s.set_observed(sel, np.concatenate([vals, [0.5]]))),
            ("one value too few", lambda: s.set_observed(sel, vals[:-1]) if len(vals) > 2 else s.set_observed(sel, np.zeros(len(vals) + 2))),  # (a single value would be broadcast: a legal call)
            ("integer values", lambda: s.set_observed(sel, np.arange(int(sel.sum())))),
            ("integer selection", lambda: s.set_observed(sel.astype(int), vals)),
        ]
        for what, call in bad_calls:
            try:
                call()
                rec.count("set_observed_calls_expected_to_be_refused_but_accepted")
                break
            except Exception:
                rec.count("refused_set_observed_calls")
                rec.count("oracle_evals")
                same = bool(np.array_equal(s.observation_mask, m0)) and kit.bytes_equal(s.observations, o0) and len([p_ for p_ in s.plates if not p_.is_observed]) == n_un0
                rec.check(same, "C12/set_observed/refused-call-left-a-trace", lambda: "set_observed refused a call (%s) but afterwards the mask / values / number of unobserved plates differ: %d rows observed (0 before), %d unobserved plates (%d before)" % (what, int(s.observation_mask.sum()), len([p_ for p_ in s.plates if not p_.is_observed]), n_un0), {"sel": sel.tolist(), "refused": what})
                if not same:
                    break
        if containers is not None:
            # either the delivery is stored exactly (checked below) or - storage the screen cannot write to - it is
            # refused and leaves no trace; it is never accepted and dropped
            try:
                s.set_observed(sel, vals)
            except ValueError as e:
                rec.count("set_observed_refused_on_read_only_storage")
                # (what the property speaks about: no row becomes observed by a refused delivery and no other row's value
                # changes.  Values written behind the mask before a read-only MASK stopped the call are not covered by it -
                # the first version of this monitor demanded them unchanged too and fired on the unchanged tree, DESIGN 0.2)
                same = bool(np.array_equal(s.observation_mask, m0)) and kit.bytes_equal(np.ascontiguousarray(s.observations[~sel]), np.ascontiguousarray(o0[~sel])) and len([p_ for p_ in s.plates if not p_.is_observed]) == n_un0
                rec.check("readonly" in containers, "C12/set_observed/raises", lambda: "set_observed raised %r on a screen whose arrays are writeable (%r)" % (e, containers), {"containers": list(containers)})
                rec.check(same, "C12/set_observed/refused-call-left-a-trace", lambda: "set_observed refused a delivery (%r, arrays %r) but the mask / values changed" % (e, containers), {"containers": list(containers)})
                continue
        else:
            s.set_observed(sel, vals)
        rec.check(kit.bytes_equal(s.observations[sel], vals) and kit.bytes_equal(s.observations[~sel], before[~sel]), "C12/set_observed/values", "set_observed stored other values or touched other rows", {"sel": sel.tolist()})
        rec.check(bool(np.array_equal(s.observation_mask, sel)), "C12/set_observed/mask", "set_observed marked other rows", {"sel": sel.tolist()})

    if tier == "thorough" and shard == 0:
        run_repo_tests(rec)


def run_repo_tests(rec):
    import subprocess, sys, tempfile
    from .. import repoimport

    root = os.path.dirname(os.path.dirname(os.path.dirname(os.path.abspath(__file__))))
    out = tempfile.mktemp(prefix="vf-pytest-", suffix=".json", dir=os.environ.get("VERIF_RUN_ROOT") or os.environ.get("VERIF_SCRATCH", "/var/tmp"))
    env = dict(os.environ)
    env["PYTHONPATH"] = root + os.pathsep + os.path.join(repoimport.REPO, "src")
    env["VF_PLUGIN_OUT"] = out
    env["VF_PLUGIN_WANT"] = "C12"
    try:
        p = subprocess.run([sys.executable, "-B", "-m", "pytest", "-q", "-p", "no:cacheprovider", "-p", "vf.pytest_plugin", "src/batchie/data_test.py", "src/batchie/retrospective_test.py", "src/batchie/cli"], cwd=repoimport.REPO, env=env, stdout=subprocess.PIPE, stderr=subprocess.STDOUT, timeout=1800)
    except subprocess.TimeoutExpired:
        rec.notes.append("repo test-suite under invariant: watchdog")
        return
    if os.path.exists(out):
        with open(out) as f:
            r = json.load(f)
        os.remove(out)
        rec.count("testsuite_screens_observed", r["counters"].get("screen_init_observed", 0))
        rec.count("oracle_evals", r["counters"].get("oracle_evals", 0))
        for v in r["violations"]:
            rec.violation(v["key"], "[under repo test-suite] " + v["message"], v["witness"])
    else:
        rec.notes.append("repo test-suite under invariant produced no report: rc=%s" % p.returncode)
