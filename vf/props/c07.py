"""C07 - pairwise-distance chunks partition the work and assemble to the same matrix."""
import itertools
import os

import numpy as np

from .. import kit, gen

PROP, NUM = "C07", 7
LEVEL = "exploration"
SHARDS = {"quick": 8, "thorough": 16}
TIMEOUT = {"quick": 900, "thorough": 5400}
RULE = (
    "partition arithmetic: every (n_thetas, n_chunks) with n<=N_EXH and n_chunks<=C(n,2)+3 enumerated completely plus "
    "sampled n<=400; assembly: for n<=9 every chunk computed by the real function with a recording metric, saved, "
    "loaded and concatenated in random permutations with repetition, compared with the single-chunk matrix and with "
    "metric(pred_i,pred_j) recomputed by the harness; refusal: one pair left out; complete matrices of 129-300 samples through save/load and a two-chunk concat of 130 samples. A case is one (n, n_chunks) grid "
    "point or one assembly order; distinct = (n, n_chunks[, order]); non-trivial = at least one pair (n>=2)"
)
ASSUMPTIONS = ["thetas in the assembly workload are harness stubs with prescribed predictions plus real sparse-combo samples"]
REQUIRED = {"chunks_asked_again_after_the_caller_changed_its_list": {"quick": 200, "thorough": 2000}, "many_experiment_matrices": {"quick": 1, "thorough": 1}, "chunked_large_matrices_n_257": {"quick": 1, "thorough": 1}, "assemblies_by_random_bracketing": {"quick": 60, "thorough": 800}, "cli_score_assemblies": {"quick": 8, "thorough": 60}, "chunk_files_overwritten": {"quick": 200, "thorough": 3000}, "partition_grid_points": {"quick": 500, "thorough": 1800}, "assemblies_checked": {"quick": 150, "thorough": 2000}, "refusals_checked": {"quick": 50, "thorough": 500}, "large_matrix_roundtrips": {"quick": 8, "thorough": 80}, "cli_matrices_checked": {"quick": 6, "thorough": 50}}
N_EXH = {"quick": 14, "thorough": 22}  # grid sizes 548 / 1900 points


def check_partition(rec, DC, n, n_chunks):
    total = n * (n - 1) // 2
    want = [(i, j) for i in range(n) for j in range(i)]
    chunks = []
    for c in range(n_chunks):
        try:
            chunks.append([tuple(int(v) for v in x) for x in DC.get_lower_triangular_indices_chunk(n, c, n_chunks)])
        except Exception as e:
            rec.violation("C07/partition/raises", "chunk(n=%d,index=%d,n_chunks=%d) raised %r" % (n, c, n_chunks, e), {"n": n, "n_chunks": n_chunks})
            return None
    flat = [p for ch in chunks for p in ch]
    rec.count("partition_grid_points")
    w = {"n": n, "n_chunks": n_chunks}
    rec.check(len(flat) == len(set(flat)), "C07/partition/overlap", lambda: "chunks overlap for n=%d n_chunks=%d" % (n, n_chunks), w)
    rec.check(sorted(flat) == sorted(want), "C07/partition/incomplete", lambda: "chunks cover %d of %d pairs for n=%d n_chunks=%d" % (len(set(flat)), total, n, n_chunks), w)
    rec.check(all(i > j and 0 <= j and i < n for i, j in flat), "C07/partition/not-lower-triangular", "pair outside i>j", w)
    sizes = [len(c) for c in chunks]
    rec.check(max(sizes) - min(sizes) <= 1, "C07/partition/unbalanced", lambda: "chunk sizes %r for n=%d n_chunks=%d" % (sizes, n, n_chunks), w)
    if total <= 600:
        # what a caller gets is its own: it may extend, shuffle or empty the list (to schedule retries, say) and ask
        # again, with positional or keyword arguments - the answer is the same chunk
        c = n_chunks // 2
        for spelled in ("positional", "keywords"):
            ask = (lambda: DC.get_lower_triangular_indices_chunk(n, c, n_chunks)) if spelled == "positional" else (lambda: DC.get_lower_triangular_indices_chunk(n=n, chunk_index=c, n_chunks=n_chunks))
            try:
                first = ask()
                if isinstance(first, list):
                    first.extend([(0, 0), (n, n)])
                    first.reverse()
                    del first[: len(first) // 2]
                again = [tuple(int(v) for v in x) for x in ask()]
            except Exception as e:
                rec.violation("C07/partition/raises", "chunk(n=%d,index=%d,n_chunks=%d) asked twice (%s) raised %r" % (n, c, n_chunks, spelled, e), w)
                break
            rec.count("chunks_asked_again_after_the_caller_changed_its_list")
            rec.check(again == chunks[c], "C07/partition/answer-depends-on-earlier-callers", lambda: "chunk %d of %d for n=%d asked again (%s) after the caller changed the list it had received: %d pairs, %d before" % (c, n_chunks, n, spelled, len(again), len(chunks[c])), w)
    return chunks


class StubTheta:
    def __init__(self, pred, tag):
        self.pred = np.asarray(pred, dtype=float)
        self.tag = tag

    def predict_viability(self, data):
        return self.pred.copy()


def run_shard(rec, tier, seed, shard, nshards):
    from batchie import distance_calculation as DC
    from batchie.core import ThetaHolder
    from batchie.distance.mse import MSEDistance
    from batchie.data import Screen

    rng = kit.rng_for(seed, NUM, shard)

    # ---------------- partition arithmetic: exhaustive grid, dealt round robin
    grid = [(n, c) for n in range(0, N_EXH[tier] + 1) for c in range(1, n * (n - 1) // 2 + 4)]
    for n, c in grid[shard::nshards]:
        rec.case(("grid", n, c), nontrivial=n >= 2)
        check_partition(rec, DC, n, c)
    for _ in range(6 if tier == "quick" else 40):
        n = int(rng.integers(23, 401))
        tot = n * (n - 1) // 2
        c = int(rng.choice([1, 2, 3, 7, 16, 100, n, tot, tot + 1, int(rng.integers(1, 2000))]))
        if c * tot > 4_000_000:  # each chunk call walks the index generator from the start
            c = max(1, 4_000_000 // tot)
        rec.case(("grid-sampled", n, c))
        rec.count("partition_sampled_points")
        check_partition(rec, DC, n, c)
    if shard == 0:
        rec.sample({"kind": "partition", "n": 5, "n_chunks": 3, "chunks": [DC.get_lower_triangular_indices_chunk(5, k, 3) for k in range(3)]})

    # ---------------- metric properties
    for sig in (True, False):
        m = MSEDistance(sigmoid=sig)
        for _ in range(20 if tier == "quick" else 200):
            k = int(rng.integers(1, 12))
            a = rng.normal(size=k) * rng.choice([0.01, 1, 30])
            b = rng.normal(size=k) * rng.choice([0.01, 1, 30])
            rec.case(("metric", sig, kit.array_hash(a), kit.array_hash(b)))
            rec.count("metric_checked")
            dab, dba, daa = m.distance(a, b), m.distance(b, a), m.distance(a, a.copy())
            rec.check(dab == dba, "C07/metric/asymmetric", "d(a,b)=%r d(b,a)=%r" % (dab, dba), {"a": a, "b": b})
            rec.check(dab >= 0, "C07/metric/negative", "d(a,b)=%r" % dab, {"a": a, "b": b})
            rec.check(daa == 0, "C07/metric/nonzero-on-identical", "d(a,a)=%r" % daa, {"a": a})
            # predictions that agree to many digits without being identical (neighbouring samples of a slowly moving
            # chain, a coefficient that touches few experiments): still non-negative, still the mean squared difference
            level = float(rng.choice([0.0, 1.0, 7.5, -30.0]))
            a2 = a + level
            step = float(rng.choice([1e-9, 1e-8, 1e-6, 1e-4]))
            b2 = a2 + step * (rng.normal(size=k) if rng.random() < 0.5 else (np.arange(k) == int(rng.integers(k))) * 1.0)
            for x, y in ((a2, b2), (a, b)):
                d = float(m.distance(x, y))
                from scipy.special import expit as _expit
                import math as _math

                px, py = (_expit(x), _expit(y)) if sig else (x, y)
                want = _math.fsum(float(u - v) ** 2 for u, v in zip(px, py)) / len(px)
                rec.count("metric_values_vs_definition")
                rec.check(d >= 0, "C07/metric/negative", "d(a,b)=%r for predictions that differ by about %g" % (d, step), {"a": x, "b": y})
                rec.check(d == float(m.distance(y, x)), "C07/metric/asymmetric", "d(a,b) != d(b,a) for nearly equal predictions", {"a": x, "b": y})
                rec.check(abs(d - want) <= 1e-9 * want, "C07/metric/not-the-mean-squared-difference", lambda: "MSEDistance(sigmoid=%s) of two prediction vectors is %r, their mean squared difference is %r" % (sig, d, want), {"a": x, "b": y})

    # ---------------- assembly
    n_asm = 60 if tier == "quick" else 240
    with kit.scratch_dir("vf-c07-") as tmp:
        for t in range(n_asm):
            n = int(rng.integers(0, 10))
            npairs = n * (n - 1) // 2
            n_chunks = int(rng.integers(1, npairs + 4))
            E = int(rng.integers(1, 6))
            use_real = rng.random() < 0.3 and n > 0
            screen = Screen(**gen.realistic_screen_kwargs(rng, n_rows=(E, E), observed="none"))
            if use_real:
                from batchie.data import ExperimentSpace

                sp = ExperimentSpace.from_screen(screen)
                thetas = [gen.random_sparse_combo_theta(rng, sp.n_unique_samples, max(1, sp.n_unique_treatments), scale=1.0) for _ in range(n)]
            else:
                base = [rng.normal(size=screen.size) for _ in range(max(1, n // 2))]
                # identical pairs -> distance exactly 0
                thetas = [StubTheta(base[int(rng.integers(len(base)))] if rng.random() < 0.4 else rng.normal(size=screen.size), i) for i in range(n)]
                if rng.random() < 0.3 and n:
                    # a slowly moving chain: every sample a tiny step away from its predecessor
                    cur = rng.normal(size=screen.size) + float(rng.choice([0.0, 3.0]))
                    thetas = []
                    for i in range(n):
                        cur = cur + float(rng.choice([1e-9, 1e-8, 1e-6])) * rng.normal(size=screen.size)
                        thetas.append(StubTheta(cur.copy(), i))
                    rec.count("slow_chain_matrices")
            holder = ThetaHolder(n_thetas=n)
            for th in thetas:
                holder.add_theta(th)
            calls = []
            real_metric = MSEDistance(sigmoid=bool(rng.random() < 0.5))

            class RecMetric:
                def distance(self, a, b):
                    v = real_metric.distance(a, b)
                    calls.append(v)
                    return v

            w = {"n": n, "n_chunks": n_chunks, "real_thetas": bool(use_real)}
            try:
                single = DC.calculate_pairwise_distance_matrix_on_predictions(holder, RecMetric(), screen, 0, 1)
                dense1 = single.to_dense()
            except Exception as e:
                rec.violation("C07/assembly/single-chunk-raises", "single chunk computation raised %r for n=%d" % (e, n), w)
                continue
            # reference recomputed by the harness
            ref = np.zeros((n, n))
            for i in range(n):
                for j in range(i):
                    v = real_metric.distance(thetas[i].predict_viability(screen), thetas[j].predict_viability(screen))
                    ref[i, j] = ref[j, i] = v
            rec.check(kit.bytes_equal(dense1, ref), "C07/assembly/entry-not-metric", "single-chunk dense matrix differs from metric(pred_i,pred_j)", w)
            rec.check(bool(np.all(dense1 >= 0)), "C07/metric/negative", lambda: "the dense matrix has negative entries (min %r)" % float(dense1.min()), w)
            rec.check(bool(np.all(np.diag(dense1) == 0)) and kit.bytes_equal(dense1, dense1.T.copy()), "C07/assembly/not-symmetric-zero-diagonal", "dense matrix not symmetric / zero diagonal", w)
            files = []
            ok = True
            for c in range(n_chunks):
                try:
                    ch = DC.calculate_pairwise_distance_matrix_on_predictions(holder, RecMetric(), screen, c, n_chunks)
                    # the pipeline writes every round's chunks to the same paths: what an earlier computation left
                    # under that name (often a chunk of the same length) has to be replaced
                    fn = os.path.join(tmp, "d_%d.h5" % c)
                    if os.path.exists(fn):
                        rec.count("chunk_files_overwritten")
                    ch.save(fn)
                    files.append(fn)
                except Exception as e:
                    rec.violation("C07/assembly/chunk-raises", "chunk %d/%d raised %r for n=%d" % (c, n_chunks, e, n), w)
                    ok = False
                    break
            if not ok:
                continue
            n_orders = 3 if tier == "quick" else 6
            for o in range(n_orders):
                order = list(rng.permutation(n_chunks))
                # repetition: insert some chunks again
                for _ in range(int(rng.integers(0, 3))):
                    order.insert(int(rng.integers(0, len(order) + 1)), int(rng.integers(n_chunks)))
                rec.case(("asm", n, n_chunks, tuple(int(x) for x in order)), nontrivial=n >= 2)
                try:
                    CDM = DC.ChunkedDistanceMatrix
                    if o % 2 == 1:
                        # a user's subclass (carries a label, say) loads and combines its chunks like the base class
                        CDM = type("LabelledMatrix", (DC.ChunkedDistanceMatrix,), {"label": "run-%d" % t})
                        rec.count("assemblies_through_a_user_defined_subclass")
                    mats = [CDM.load(files[int(c)]) for c in order]
                    if o % 4 == 3 and len(mats) >= 2:
                        mats[0] = DC.ChunkedDistanceMatrix.load(files[int(order[0])])  # one chunk still of the library's own class
                    snap = [(m_.current_index, kit.raw_bytes(m_.row_indices[: m_.current_index]), kit.raw_bytes(m_.col_indices[: m_.current_index]), kit.raw_bytes(m_.values[: m_.current_index])) for m_ in mats]
                    comb = CDM.concat(mats)
                    dense = comb.to_dense()
                    if len(mats) > 2 and rng.random() < 0.5:
                        # "any order" includes any bracketing: a random binary tree of combine() calls over the same
                        # chunks (a pairwise reduction), whose operands are themselves results of combine()
                        parts = [DC.ChunkedDistanceMatrix.load(files[int(c)]) for c in order]
                        while len(parts) > 1:
                            i_ = int(rng.integers(0, len(parts) - 1))
                            parts[i_ : i_ + 2] = [parts[i_].combine(parts[i_ + 1])]
                        rec.count("assemblies_by_random_bracketing")
                        rec.check(parts[0].is_complete() and kit.bytes_equal(parts[0].to_dense(), dense1), "C07/assembly/order-dependent", lambda: "a pairwise (tree-shaped) reduction of the chunks in order %r does not give the single-chunk matrix (n=%d,n_chunks=%d)" % (order, n, n_chunks), dict(w, order=[int(x) for x in order]))
                    if len(mats) > 1:
                        after = [(m_.current_index, kit.raw_bytes(m_.row_indices[: m_.current_index]), kit.raw_bytes(m_.col_indices[: m_.current_index]), kit.raw_bytes(m_.values[: m_.current_index])) for m_ in mats]
                        rec.check(after == snap, "C07/assembly/input-chunk-changed", "combining chunks changed one of the input chunks", dict(w, order=[int(x) for x in order]))
                        again = DC.ChunkedDistanceMatrix.concat(mats).to_dense()
                        rec.check(kit.bytes_equal(again, dense), "C07/assembly/not-repeatable", "combining the same chunk objects a second time gives another matrix", dict(w, order=[int(x) for x in order]))
                except Exception as e:
                    rec.violation("C07/assembly/concat-raises", "concat/to_dense raised %r for order %r (n=%d,n_chunks=%d)" % (e, order, n, n_chunks), dict(w, order=[int(x) for x in order]))
                    continue
                rec.count("assemblies_checked")
                if len(order) > n_chunks:
                    rec.count("assemblies_with_repetition")
                rec.check(kit.bytes_equal(dense, dense1), "C07/assembly/order-dependent", lambda: "assembled matrix differs from the single-chunk matrix for order %r (n=%d,n_chunks=%d)" % (order, n, n_chunks), dict(w, order=[int(x) for x in order]))
                rec.check(comb.is_complete(), "C07/assembly/not-complete", "assembled matrix not complete", w)
                if t == 0 and o == 0 and shard == 0:
                    rec.sample({"kind": "assembly", "n": n, "n_chunks": n_chunks, "order": [int(x) for x in order], "dense": dense.tolist()})
            # refusal: leave one non-empty chunk out
            sizes = [len(DC.get_lower_triangular_indices_chunk(n, c, n_chunks)) for c in range(n_chunks)]
            nonempty = [c for c in range(n_chunks) if sizes[c] > 0]
            if nonempty:
                drop = int(rng.choice(nonempty))
                order = [c for c in rng.permutation(n_chunks) if c != drop]
                rec.case(("refuse", n, n_chunks, drop))
                try:
                    if order:
                        comb = DC.ChunkedDistanceMatrix.concat([DC.ChunkedDistanceMatrix.load(files[int(c)]) for c in order])
                    else:
                        comb = DC.ChunkedDistanceMatrix(size=n)
                    comb.to_dense()
                    rec.count("refusals_checked")
                    rec.count("oracle_evals")
                    rec.violation("C07/refusal/incomplete-densified", "matrix missing chunk %d (%d pairs) was densified (n=%d,n_chunks=%d)" % (drop, sizes[drop], n, n_chunks), dict(w, drop=drop))
                except ValueError:
                    rec.count("refusals_checked")
                    rec.count("oracle_evals")
                except Exception as e:
                    rec.count("refusals_checked")
                    rec.violation("C07/refusal/wrong-exception", "incomplete matrix raised %r instead of ValueError" % (e,), w)
        large_matrices(rec, tier, rng, DC, tmp, shard)
        if shard == 1:
            many_experiments(rec, rng, DC)
        cli_chunks(rec, tier, rng, DC, tmp)


def cli_chunks(rec, tier, rng, DC, tmp):
    """calculate_distance_matrix run in-process: several chain files, several chunks; entry (i,j) must be the metric of
    samples i and j in the order of the files on the command line (the order ThetaHolder.concat gives)"""
    from batchie.cli import calculate_distance_matrix as cli
    from batchie.core import ThetaHolder
    from batchie.data import Screen, ExperimentSpace
    from batchie.distance.mse import MSEDistance

    for ci in range(2 if tier == "quick" else 6):
        screen = Screen(**gen.realistic_screen_kwargs(rng, n_rows=(4, 12), n_plates=(2, 4), observed="none"))
        sp = ExperimentSpace.from_screen(screen)
        sizes = [int(rng.integers(1, 4)) for _ in range(int(rng.integers(2, 4)))]
        files, thetas = [], []
        for k, sz in enumerate(sizes):
            h = ThetaHolder(n_thetas=sz)
            for _ in range(sz):
                th = gen.random_sparse_combo_theta(rng, sp.n_unique_samples, max(1, sp.n_unique_treatments), scale=1.0)
                h.add_theta(th)
                thetas.append(th)
            if ci % 2:
                os.makedirs(os.path.join(tmp, "cli_chain_%d" % k), exist_ok=True)
                fn = os.path.join(tmp, "cli_chain_%d" % k, "samples.h5")  # one directory per chain, equal file names
            else:
                fn = os.path.join(tmp, "cli_th_%d.h5" % k)
            h.save_h5(fn)
            files.append(fn)
        f_s = os.path.join(tmp, "cli_screen.h5")
        screen.save_h5(f_s)
        n = len(thetas)
        n_chunks = int(rng.integers(1, 5))
        outs = []
        w = {"via": "cli", "chain_sizes": sizes, "n_chunks": n_chunks}
        rec.case(("cli", tuple(sizes), n_chunks), nontrivial=True)
        try:
            for c in range(n_chunks):
                if ci % 2:
                    os.makedirs(os.path.join(tmp, "cli_dchunk_%d" % c), exist_ok=True)
                    o = os.path.join(tmp, "cli_dchunk_%d" % c, "distances.h5")
                else:
                    o = os.path.join(tmp, "cli_d_%d.h5" % c)
                kit.run_cli(cli.main, ["--data", f_s, "--thetas"] + files + ["--distance-metric", "MSEDistance", "--n-chunks", n_chunks, "--chunk-index", c, "--output", o])
                outs.append(o)
            order = [int(x) for x in rng.permutation(n_chunks)]
            dense = DC.ChunkedDistanceMatrix.concat([DC.ChunkedDistanceMatrix.load(outs[c]) for c in order]).to_dense()
        except Exception as e:
            rec.violation("C07/cli/raises", "calculate_distance_matrix CLI path raised %r" % (e,), w)
            continue
        metric = MSEDistance()
        loaded = Screen.load_h5(f_s)
        ref = np.zeros((n, n))
        for i in range(n):
            for j in range(i):
                ref[i, j] = ref[j, i] = metric.distance(thetas[i].predict_viability(loaded), thetas[j].predict_viability(loaded))
        rec.count("cli_matrices_checked")
        rec.check(dense.shape == ref.shape and kit.bytes_equal(dense, ref), "C07/cli/entry-not-metric-of-samples-in-file-order", "the matrix assembled from the command-line chunks is not metric(pred_i, pred_j) with samples numbered in the order of the --thetas files", w)

        # ---- the consumer of the chunk files: calculate_scores assembles --distance-matrix files itself. Any order, a
        #      chunk given twice: same scores as from one complete file; a chunk left out: refused.
        if n < 3:
            continue
        from batchie.cli import calculate_scores as cli_sc
        from batchie.scoring.main import ChunkedScoresHolder

        f_one = os.path.join(tmp, "cli_d_complete.h5")
        f_th = os.path.join(tmp, "cli_th_all.h5")
        ThetaHolder.concat([ThetaHolder(n_thetas=1).load_h5(f_) for f_ in files]).save_h5(f_th)

        def scores_from(dfiles, tag):
            o = os.path.join(tmp, "cli_sc_%s.h5" % tag)
            if os.path.exists(o):
                os.remove(o)
            kit.run_cli(cli_sc.main, ["--data", f_s, "--thetas", f_th, "--distance-matrix"] + dfiles + ["--scorer", "GaussianDBALScorer", "--output", o, "--seed", 4])
            h = ChunkedScoresHolder.load_h5(o)
            return sorted((int(p_), float(v_).hex()) for p_, v_ in zip(h.plate_ids.tolist(), h.scores.tolist()))

        try:
            DC.ChunkedDistanceMatrix.concat([DC.ChunkedDistanceMatrix.load(o_) for o_ in outs]).save(f_one)
            base = scores_from([f_one], "one")
        except Exception as e:
            rec.violation("C07/cli/raises", "calculate_scores on one complete distance file raised %r" % (e,), w)
            continue
        order = [int(x) for x in rng.permutation(n_chunks)]
        for _ in range(int(rng.integers(0, 3))):
            order.insert(int(rng.integers(0, len(order) + 1)), int(rng.integers(n_chunks)))
        rec.count("cli_score_assemblies")
        try:
            got = scores_from([outs[c] for c in order], "perm")
            rec.check(got == base, "C07/cli/scores-depend-on-chunk-order-or-repetition", lambda: "calculate_scores gives other scores for --distance-matrix chunks in order %r than for the complete matrix" % (order,), dict(w, order=order))
        except Exception as e:
            rec.violation("C07/cli/raises", "calculate_scores raised %r for --distance-matrix chunks in order %r (every pair is present)" % (e, order), dict(w, order=order))
        nonempty = [c for c in range(n_chunks) if DC.ChunkedDistanceMatrix.load(outs[c]).current_index > 0] if hasattr(DC.ChunkedDistanceMatrix.load(outs[0]), "current_index") else list(range(n_chunks))
        if len(nonempty) >= 2:
            drop = int(rng.choice(nonempty))
            keep = [c for c in range(n_chunks) if c != drop]
            if rng.random() < 0.5:
                keep.append(int(rng.choice(keep)))  # the missing chunk "replaced" by another one given twice
            rec.count("cli_incomplete_refusals")
            try:
                scores_from([outs[c] for c in keep], "missing")
                rec.violation("C07/refusal/incomplete-densified", "calculate_scores accepted --distance-matrix files %r although chunk %d (with pairs) is missing" % (keep, drop), dict(w, given=keep))
            except ValueError:
                pass
            except Exception as e:
                rec.violation("C07/refusal/wrong-exception", "calculate_scores raised %r instead of ValueError for an incomplete set of distance chunks" % (e,), w)


def many_experiments(rec, rng, DC):
    """One distance computation at the scale of a full library screen: 28 posterior samples predicting 320 000
    experiments each (72 MB of predictions). Every entry must still be metric(pred_i, pred_j)."""
    from batchie.core import Theta, ThetaHolder
    from batchie.data import Screen
    from batchie.distance.mse import MSEDistance

    class Fixed(Theta):
        def __init__(self, v):
            self.v = v

        def predict_viability(self, data):
            return self.v.copy()

        def predict_conditional_mean(self, data):
            return self.v.copy()

        def predict_conditional_variance(self, data):
            return np.ones_like(self.v)

    n_rows, T = 320000, 28
    idx = np.arange(n_rows)
    screen = Screen(treatment_names=np.stack([np.char.add("d", (idx % 40).astype(str)), np.char.add("e", (idx % 30).astype(str))], axis=1), treatment_doses=np.stack([1.0 + idx % 3, 1.0 + idx % 2], axis=1).astype(float), sample_names=np.char.add("s", (idx % 12).astype(str)), plate_names=np.char.add("p", (idx // 1600).astype(str)))
    holder = ThetaHolder(n_thetas=T)
    preds = []
    for _ in range(T):
        v = rng.random(n_rows)
        preds.append(v)
        holder.add_theta(Fixed(v))
    metric = MSEDistance(sigmoid=False)
    rec.case(("many-experiments", n_rows, T), nontrivial=True)
    try:
        dense = DC.calculate_pairwise_distance_matrix_on_predictions(holder, MSEDistance(sigmoid=False), screen, 0, 1).to_dense()
    except Exception as e:
        rec.violation("C07/assembly/single-chunk-raises", "distance computation on %d experiments x %d samples raised %r" % (n_rows, T, e), {"rows": n_rows, "n_thetas": T})
        return
    ref = np.zeros((T, T))
    for i in range(T):
        for j in range(i):
            ref[i, j] = ref[j, i] = metric.distance(preds[i].copy(), preds[j].copy())
    rec.count("many_experiment_matrices")
    wrong = int((dense != ref).sum())
    rec.check(dense.shape == ref.shape and wrong == 0, "C07/assembly/entry-not-metric", lambda: "%d experiments x %d samples: %d entries of the matrix are not metric(pred_i, pred_j)" % (n_rows, T, wrong), {"rows": n_rows, "n_thetas": T})


def large_matrices(rec, tier, rng, DC, tmp, shard):
    sizes = [129, 200, 256, 257, 300] if tier == "thorough" else [int(rng.choice([129, 200, 256, 257, 300]))]
    for n in sizes:
        vals = rng.random((n, n))
        m = DC.ChunkedDistanceMatrix(size=n)
        for i in range(n):
            for j in range(i):
                m.add_value(i, j, float(vals[i, j]))
        ref = np.tril(vals, -1)
        ref = ref + ref.T
        fn = os.path.join(tmp, "big_%d.h5" % n)
        w = {"n": n, "large": True}
        rec.case(("large", n), nontrivial=True)
        try:
            m.save(fn)
            L = DC.ChunkedDistanceMatrix.load(fn)
            dense = L.to_dense()
        except Exception as e:
            rec.violation("C07/assembly/concat-raises", "save/load/to_dense of a complete %d x %d matrix raised %r" % (n, n, e), w)
            continue
        rec.count("large_matrix_roundtrips")
        rec.check(kit.bytes_equal(dense, ref), "C07/assembly/entry-misplaced-after-save-load", lambda: "a %d x %d matrix differs after save/load (%d entries differ)" % (n, n, int((dense != ref).sum())), w)
        rec.check(bool(np.all(np.diag(dense) == 0)) and kit.bytes_equal(dense, dense.T.copy()), "C07/assembly/not-symmetric-zero-diagonal", "loaded %d x %d matrix not symmetric / zero diagonal" % (n, n), w)
        os.remove(fn)
    if tier == "thorough" or shard < 3:
        # two parts of a matrix of 130 / 257 / 300 samples (past every small-integer and one-byte boundary): a big part
        # and a small one (combine() is quadratic in its right operand), saved, loaded and combined - both loaded, or one
        # of them still in memory
        n = [130, 257, 300][shard % 3]
        rec.count("chunked_large_matrices_n_%d" % n)
        vals = rng.random((n, n))
        ref = np.tril(vals, -1)
        ref = ref + ref.T
        pairs = [(i, j) for i in range(n) for j in range(i)]
        cut = len(pairs) - 150

        def part(which):
            ch = DC.ChunkedDistanceMatrix(size=n)
            for (i, j) in (pairs[:cut] if which == 0 else pairs[cut:]):
                ch.add_value(i, j, float(vals[i, j]))
            return ch

        files = []
        for c in range(2):
            fn = os.path.join(tmp, "big2_%d.h5" % c)
            part(c).save(fn)
            files.append(fn)
        for what, mk in (
            ("loaded + loaded", lambda: (DC.ChunkedDistanceMatrix.load(files[0]), DC.ChunkedDistanceMatrix.load(files[1]))),
            ("loaded + in-memory", lambda: (DC.ChunkedDistanceMatrix.load(files[0]), part(1))),
            ("in-memory + loaded", lambda: (part(0), DC.ChunkedDistanceMatrix.load(files[1]))),
            ("concat of loaded", None),
        ):
            rec.case(("large-parts", n, what))
            try:
                if mk is None:
                    dense = DC.ChunkedDistanceMatrix.concat([DC.ChunkedDistanceMatrix.load(f_) for f_ in files]).to_dense()
                else:
                    a_, b_ = mk()
                    dense = a_.combine(b_).to_dense()
            except Exception as e:
                rec.violation("C07/assembly/concat-raises", "combining two parts (%s) of a %d-sample matrix raised %r" % (what, n, e), {"n": n})
                continue
            rec.count("large_matrix_roundtrips")
            rec.check(kit.bytes_equal(dense, ref), "C07/assembly/order-dependent", "two parts of a %d-sample matrix (%s) do not assemble to the reference" % (n, what), {"n": n})


def coverage_extra(tier, counters):
    return {"exhaustive": False, "exhaustive_subspace": "partition arithmetic for all n_thetas<=%d x n_chunks<=C(n,2)+3 enumerated completely" % N_EXH[tier]}
