"""C05 - a plate's DBAL score depends on that plate alone and equals the direct estimator."""
from math import comb

import numpy as np

from .. import kit, gen
from ..oracles import dbal_ref

PROP, NUM = "C05", 5
LEVEL = "exploration"
SHARDS = {"quick": 16, "thorough": 16}
TIMEOUT = {"quick": 1200, "thorough": 7200}
RULE = (
    "configurations: n_thetas 3-32 (all triples enumerated), 1-8 plates of sizes 1-12 (always a size-1 plate or a single "
    "plate somewhere in the run), variances log-uniform in [1e-3,1e3], means N(0,1)x{0.1,1,10,100}, in every fifth configuration around a common level (40 .. 500; 2**10 / 2**20 on a binary grid) far above their spread, incl. plates on which all samples agree next to plates on which they disagree strongly, occasional plates of 20-48 experiments and plates of production size (96 / 160 / 384 experiments) whose variances all lie in one regime (1e-3 .. 1e3), symmetric non-negative "
    "distance matrices with 0-40% zero entries (and all-zero), max_chunk in {1,2,3,50}; each plate's score from the "
    "homoscedastic, heteroscedastic, vectorized and GaussianDBALScorer entry points is compared with a scalar fsum "
    "reference at 1e-9(1+|ref|) and under metamorphic changes (alone vs together, shuffled experiments, shuffled plates, "
    "every max_chunk, relabelled thetas). A case is one (configuration, entry point); distinct = hash of inputs; "
    "non-trivial = >=2 plates of unequal sizes or >=4 thetas"
)
ASSUMPTIONS = ["means bounded by a few hundred (up to 2**20 when they lie on a binary grid on which every difference is exact) so squares stay finite", "scalar reference uses math.fsum and a stable log-sum-exp"]
REQUIRED = {"configs_with_nearly_constant_variances": {"quick": 50, "thorough": 1000}, "configs_with_tiny_unequal_variances": {"quick": 25, "thorough": 500}, "kernel_calls_repeated_on_nan_padded_arrays": {"quick": 100, "thorough": 1500}, "scores_by_a_long_lived_scorer_object": {"quick": 300, "thorough": 5000}, "work_array_scale_runs": {"quick": 1, "thorough": 1}, "configs_with_more_than_5000_triples": {"quick": 10, "thorough": 200}, "cli_end_to_end_runs": {"quick": 5, "thorough": 50}, "scorer_runs_on_overlapping_views": {"quick": 10, "thorough": 150}, "production_size_plates": {"quick": 40, "thorough": 800}, "plate_scores_vs_reference": {"quick": 10000, "thorough": 200000}, "metamorphic_checks": {"quick": 10000, "thorough": 200000}, "scorer_entry_runs": {"quick": 800, "thorough": 15000}, "all_zero_distance_cases": {"quick": 10, "thorough": 200}}
N_CFG = {"quick": 960, "thorough": 16000}
TOL = 1e-9


def same(a, b, tol=TOL):
    a, b = float(a), float(b)
    if a == b:
        return True
    if not (np.isfinite(a) and np.isfinite(b)):
        return False
    return abs(a - b) <= tol * (1.0 + abs(b))


def work_array_scale(rec, rng):
    """One configuration at the scale of a real scoring job: ten plates, one of them with 4000 experiments, 12 posterior
    samples (220 triples, all enumerated) - about 9 million (plate, triple, experiment) cells in the kernel's work
    arrays. The big plate and a single-experiment plate are compared with the direct estimator, alone and together."""
    from batchie.scoring import gaussian_dbal as G

    T = 12
    sizes = [4000, 1] + [int(x) for x in rng.integers(2, 30, size=8)]
    means = [rng.normal(size=(T, e)) * 0.3 for e in sizes]
    hetero = [np.exp(rng.uniform(np.log(0.3), np.log(3.0), size=(T, e))) for e in sizes]
    d = np.abs(rng.normal(size=(T, T)))
    d = d + d.T
    np.fill_diagonal(d, 0.0)
    budget = comb(T, 3)
    w = {"n_thetas": T, "plate_sizes": sizes, "budget": budget, "scale": "work arrays of ~9e6 cells"}
    rec.case(("work-array-scale", tuple(sizes)), nontrivial=True)
    try:
        together = G.dbal_fast_gaussian_scoring_heteroscedastic(means, hetero, d, np.random.default_rng(1), max_combos=budget)
        alone = G.dbal_fast_gaussian_scoring_heteroscedastic([means[1]], [hetero[1]], d, np.random.default_rng(2), max_combos=budget)
    except Exception as e:
        rec.violation("C05/heteroscedastic/raises", "scoring at scale raised %r" % (e,), w)
        return
    rec.count("work_array_scale_runs")
    for p in (0, 1):
        ref = dbal_ref.plate_score(means[p].tolist(), hetero[p].tolist(), d.tolist())
        rec.count("plate_scores_vs_reference")
        rec.check(same(float(together[p]), ref, 1e-8), "C05/heteroscedastic/differs-from-direct-estimator", lambda: "at scale: plate %d (size %d of sizes %r, %d thetas) scored %r, direct evaluation gives %r" % (p, sizes[p], sizes, T, float(together[p]), ref), w)
    rec.count("metamorphic_checks")
    rec.check(same(float(alone[0]), float(together[1]), 1e-10), "C05/metamorphic/depends-on-company", lambda: "the single-experiment plate scores %r alone and %r next to a 4000-experiment plate" % (float(alone[0]), float(together[1])), w)


def cli_end_to_end(rec, tier, rng):
    """The scorer as the pipeline reaches it: calculate_distance_matrix, then calculate_scores with GaussianDBALScorer,
    the posterior samples given as several chain files whose names are NOT in alphabetical order. Each plate's score
    must be the direct estimator over the samples in command-line order and their pairwise MSE distances."""
    import os
    from batchie.cli import calculate_distance_matrix as cli_d, calculate_scores as cli_s
    from batchie.core import ThetaHolder
    from batchie.data import Screen, ExperimentSpace
    from batchie.distance.mse import MSEDistance
    from batchie.scoring.main import ChunkedScoresHolder

    with kit.scratch_dir("vf-c05-") as tmp:
        for ci in range({"quick": 1, "thorough": 5}[tier]):
            screen = Screen(**gen.realistic_screen_kwargs(rng, n_rows=(8, 24), n_plates=(2, 5), observed="none"))
            sp = ExperimentSpace.from_screen(screen)
            labels = [str(x) for x in rng.permutation(["run_a", "run_b", "run_c", "chain_10", "chain_2"])[: int(rng.integers(2, 5))]]
            if labels == sorted(labels):
                labels = labels[::-1]
            files, thetas = [], []
            for lab in labels:
                sz = int(rng.integers(1, 4))
                h = ThetaHolder(n_thetas=sz)
                for _ in range(sz):
                    th = gen.random_sparse_combo_theta(rng, sp.n_unique_samples, max(1, sp.n_unique_treatments), scale=1.0)
                    h.add_theta(th)
                    thetas.append(th)
                fn = os.path.join(tmp, lab + ".h5")
                h.save_h5(fn)
                files.append(fn)
            if len(thetas) < 3:
                continue
            f_s, f_d, f_o = (os.path.join(tmp, x) for x in ("screen.h5", "dist.h5", "scores.h5"))
            screen.save_h5(f_s)
            w = {"via": "cli", "theta_files": labels, "n_thetas": len(thetas)}
            rec.case(("cli-e2e", tuple(labels), len(thetas), kit.array_hash(screen.observations)), nontrivial=True)
            try:
                kit.run_cli(cli_d.main, ["--data", f_s, "--thetas"] + files + ["--distance-metric", "MSEDistance", "--n-chunks", 1, "--chunk-index", 0, "--output", f_d])
                kit.run_cli(cli_s.main, ["--data", f_s, "--thetas"] + files + ["--distance-matrix", f_d, "--scorer", "GaussianDBALScorer", "--output", f_o, "--seed", 0])
                got = ChunkedScoresHolder.load_h5(f_o)
            except Exception as e:
                rec.violation("C05/scorer/raises", "distance + scores command lines raised %r\n%s" % (e, kit.tb()), w)
                continue
            loaded = Screen.load_h5(f_s)
            metric = MSEDistance()
            T = len(thetas)
            d = np.zeros((T, T))
            for i in range(T):
                for j in range(i):
                    d[i, j] = d[j, i] = metric.distance(thetas[i].predict_viability(loaded), thetas[j].predict_viability(loaded))
            rec.count("cli_end_to_end_runs")
            for pid, sc in zip(got.plate_ids.tolist(), got.scores.tolist()):
                pl = loaded.get_plate(int(pid))
                m = [np.asarray(th.predict_conditional_mean(pl), dtype=float).tolist() for th in thetas]
                v = [np.asarray(th.predict_conditional_variance(pl), dtype=float).tolist() for th in thetas]
                ref = dbal_ref.plate_score(m, v, d.tolist())
                rec.count("plate_scores_vs_reference")
                rec.check(same(float(sc), ref, 1e-8), "C05/scorer/differs-from-direct-estimator", lambda: "command lines with --thetas %r: plate %d scored %r, the direct estimator over the samples in that order gives %r" % (labels, int(pid), float(sc), ref), w)


NEAR = [0, 0]


def gen_config(rng):
    u = rng.random()
    T = int(rng.integers(3, 8)) if u < 0.6 else int(rng.integers(8, 17)) if u < 0.9 else int(rng.integers(17, 33))
    P = int(rng.integers(1, 9))
    sizes = [int(rng.integers(1, 13)) for _ in range(P)]
    if rng.random() < 0.025:
        # more triples than the scorer's default budget of 5000 (C(33,3) = 5456): all of them must still be used when
        # the configured budget covers them
        T = int(rng.integers(33, 37))
        P = int(rng.integers(1, 4))
        sizes = [int(rng.integers(1, 5)) for _ in range(P)]
    if rng.random() < 0.5:
        sizes[int(rng.integers(P))] = 1
    if rng.random() < 0.15:
        sizes[int(rng.integers(P))] = int(rng.integers(20, 49))  # one large plate next to small ones
    big = None
    if rng.random() < 0.08:
        # a plate of production size (96 / 384 wells) whose variances all lie in one regime
        T = int(rng.integers(3, 7))
        big = int(rng.integers(P))
        sizes[big] = int(rng.choice([96, 160, 384]))
    mscale = float(rng.choice([0.1, 1.0, 10.0, 100.0]))
    means = [rng.normal(size=(T, e)) * mscale for e in sizes]
    if rng.random() < 0.3:
        # mixed company: a plate on which the posterior samples (nearly) agree next to plates on which they
        # disagree strongly - the log-terms of the two then lie hundreds to thousands of units apart
        p0 = int(rng.integers(P))
        means[p0] = np.tile(rng.normal(size=(1, sizes[p0])), (T, 1)) + rng.normal(size=(T, sizes[p0])) * float(rng.choice([0.0, 1e-6, 1e-2]))
    u = rng.random()
    if u < 0.1:
        # a common level far above the spread of the samples (predictions that all sit near one value): the score
        # depends on differences between samples only
        lvl = float(rng.choice([-500.0, 40.0, 200.0, 500.0]))
        means = [m / mscale * float(rng.choice([0.01, 1.0])) + lvl for m in means]
    elif u < 0.2:
        # the same on a binary grid (every difference between two means is exact in double precision)
        lvl = float(rng.choice([2.0**10, 2.0**20, -(2.0**20)]))
        means = [lvl + np.round(m / mscale * 2.0**9) * 2.0**-10 for m in means]
    hetero = [np.exp(rng.uniform(np.log(1e-3), np.log(1e3), size=(T, e))) for e in sizes]
    homo = np.exp(rng.uniform(np.log(1e-3), np.log(1e3), size=(P, T)))
    if big is not None:
        centre = float(rng.choice([1e-3, 0.05, 1.0, 30.0, 1e3]))
        hetero[big] = centre * np.exp(rng.normal(size=(T, sizes[big])) * 0.2)
        homo[big] = centre * np.exp(rng.normal(size=T) * 0.2)
        means[big] = means[big] * float(rng.choice([1.0, np.sqrt(centre)]))  # disagreement on the scale of the noise
    u = rng.random()
    if u < 0.10:
        # nearly - not exactly - homoscedastic: on every plate each sample's variances agree to five to seven digits
        # (a noise model fitted per well that came out almost flat)
        eps = float(rng.choice([3e-6, 1e-6, 1e-7]))
        hetero = [np.exp(rng.uniform(np.log(1e-2), np.log(1e2), size=(T, 1))) * (1.0 + eps * rng.uniform(-1, 1, size=(T, e))) for e in sizes]
        NEAR[0] += 1
    elif u < 0.16:
        # very small variances that differ from well to well by factors of 2-20 (read-outs on a 1e-4 scale)
        hetero = [np.exp(rng.uniform(np.log(5e-10), np.log(1e-8), size=(T, e))) for e in sizes]
        homo = np.exp(rng.uniform(np.log(5e-10), np.log(1e-8), size=(P, T)))
        means = [m / mscale * 1e-4 if np.all(np.abs(m) < 1e3 * mscale) else m for m in means]
        means = [np.clip(m, -1e-3, 1e-3) for m in means]
        NEAR[1] += 1
    d = np.abs(rng.normal(size=(T, T))) * float(rng.choice([1e-3, 1.0, 50.0]))
    d = d + d.T
    zero_frac = float(rng.choice([0.0, 0.1, 0.4, 1.0], p=[0.4, 0.3, 0.25, 0.05]))
    z = rng.random((T, T)) < zero_frac
    z = z | z.T
    d[z] = 0.0
    np.fill_diagonal(d, 0.0)
    return T, P, sizes, means, hetero, homo, d


def run_shard(rec, tier, seed, shard, nshards):
    from batchie.scoring import gaussian_dbal as G
    from batchie.core import Theta, ThetaHolder
    from batchie.data import Screen, ExperimentSpace
    from batchie.distance_calculation import ChunkedDistanceMatrix

    rng = kit.rng_for(seed, NUM, shard)
    n_cfg = N_CFG[tier] // nshards

    class StubTheta(Theta):
        def __init__(self, mean, var):
            self.mean, self.var = mean, var

        def predict_conditional_mean(self, data):
            return self.mean[np.asarray(data.selection_vector)].copy()

        def predict_conditional_variance(self, data):
            return self.var[np.asarray(data.selection_vector)].copy()

        def predict_viability(self, data):
            return self.predict_conditional_mean(data)

    def grng():
        return np.random.default_rng(int(rng.integers(0, 2**31)))

    for ci in range(n_cfg):
        n0_ = tuple(NEAR)
        T, P, sizes, means, hetero, homo, d = gen_config(rng)
        if NEAR[0] > n0_[0]:
            rec.count("configs_with_nearly_constant_variances")
        if NEAR[1] > n0_[1]:
            rec.count("configs_with_tiny_unequal_variances")
        if rng.random() < 0.12:
            # integer-typed inputs (counts, 0/1 read-outs, whole-number variances) are numbers like any other
            which = str(rng.choice(["means", "variances", "first-plate-means", "both"]))
            if which in ("means", "both"):
                means = [np.round(m_ * 3).astype(np.int64) for m_ in means]
            if which == "first-plate-means":
                means = [np.round(means[0] * 3).astype(np.int64)] + means[1:]
            if which in ("variances", "both"):
                hetero = [np.maximum(1, np.round(v_)).astype(np.int64) for v_ in hetero]
                homo = np.maximum(1, np.round(homo)).astype(np.int64)
            rec.count("integer_typed_inputs")
        total = comb(T, 3)
        budget = total + int(rng.integers(0, 3))
        if max(sizes) >= 96:
            rec.count("production_size_plates")
        if T >= 33:
            rec.count("configs_with_more_than_5000_triples")
        nontriv = (P >= 2 and len(set(sizes)) > 1) or T >= 4
        w = {"n_thetas": T, "plate_sizes": sizes, "zero_distance_entries": int((d == 0).sum() - T), "budget": budget}
        if not d.any():
            rec.count("all_zero_distance_cases")
        # ---------------- reference, per plate
        ref_het = [dbal_ref.plate_score(means[p].tolist(), hetero[p].tolist(), d.tolist()) for p in range(P)]
        ref_hom = [dbal_ref.plate_score(means[p].tolist(), (homo[p][:, None] * np.ones((T, sizes[p]))).tolist(), d.tolist()) for p in range(P)]

        def run(what, fn):
            try:
                return np.asarray(fn(), dtype=float)
            except Exception as e:
                rec.violation("C05/%s/raises" % what, "%s raised %r\n%s" % (what, e, kit.tb()), w)
                return None

        def versus_ref(what, got, ref, idx=None):
            if got is None:
                return
            for k_, (g_, r_) in enumerate(zip(got, ref)):
                rec.count("plate_scores_vs_reference")
                rec.maxi("max_rel_dev", abs(g_ - r_) / (1 + abs(r_)) if np.isfinite(g_) and np.isfinite(r_) else 0.0)
                rec.check(same(g_, r_), "C05/%s/differs-from-direct-estimator" % what, lambda: "%s: plate %d (size %d of sizes %r, %d thetas) scored %r, direct evaluation gives %r" % (what, k_, sizes[k_] if idx is None else sizes[idx[k_]], sizes, T, g_, r_), w)
                anypos = any(d[i, j] + d[j, k] + d[i, k] > 0 for i in range(T) for j in range(i) for k in range(j))
                if anypos:
                    rec.check(np.isfinite(g_), "C05/%s/non-finite-score" % what, lambda: "%s: score %r although some triple has positive distance" % (what, g_), w)

        # ---------------- heteroscedastic entry point
        rec.case(("het", kit.array_hash(np.concatenate([m.ravel() for m in means])), kit.array_hash(d)), nontrivial=nontriv)
        het = run("heteroscedastic", lambda: G.dbal_fast_gaussian_scoring_heteroscedastic(means, hetero, d, grng(), max_combos=budget))
        versus_ref("heteroscedastic", het, ref_het)
        # ---------------- homoscedastic entry point
        rec.case(("hom", kit.array_hash(homo), kit.array_hash(d)), nontrivial=nontriv)
        hom = run("homoscedastic", lambda: G.dbal_fast_gaussian_scoring_homoscedastic(means, homo, d, grng(), max_combos=budget))
        versus_ref("homoscedastic", hom, ref_hom)
        # ---------------- vectorized kernel directly (own padding)
        E = max(sizes)
        pm = np.zeros((P, T, E))
        pv = np.full((P, T, E), np.nan)
        for p in range(P):
            pm[p, :, : sizes[p]] = means[p]
            pv[p, :, : sizes[p]] = hetero[p]
        h_in = (kit.array_hash(pm), kit.array_hash(pv), kit.array_hash(d))
        vec = run("vectorized", lambda: G.dbal_fast_gauss_scoring_vectorized(pm, pv, d, grng(), max_combos=budget))
        versus_ref("vectorized", vec, ref_het)
        # the caller keeps its (NaN-padded) tensors and asks again - each plate's score depends on that plate alone, not
        # on what an earlier call left behind - and may hand them over read-only, strided or column-major
        rec.check((kit.array_hash(pm), kit.array_hash(pv), kit.array_hash(d)) == h_in, "C05/vectorized/inputs-changed", "the kernel changed the prediction / variance / distance arrays it was given (NaN padding of unequal plates included)", w)
        vec2 = run("vectorized", lambda: G.dbal_fast_gauss_scoring_vectorized(pm, pv, d, grng(), max_combos=budget))
        versus_ref("vectorized-second-call-on-the-same-arrays", vec2, ref_het)
        pm_d, k1 = kit.dress(rng, pm)
        pv_d, k2 = kit.dress(rng, pv)
        d_d, k3 = kit.dress(rng, d)
        rec.count("kernel_calls_on_arrays_in_another_container")
        if len(set(sizes)) > 1:
            rec.count("kernel_calls_repeated_on_nan_padded_arrays")
        w["containers"] = [k1, k2, k3]
        vec3 = run("vectorized", lambda: G.dbal_fast_gauss_scoring_vectorized(pm_d, pv_d, d_d, grng(), max_combos=budget))
        versus_ref("vectorized-%s-inputs" % (k2 if k2 != "plain" else k1), vec3, ref_het)
        w.pop("containers", None)

        # ---------------- metamorphic monitors (heteroscedastic inputs)
        if het is not None:
            # alone vs together
            for p in range(P):
                alone = run("heteroscedastic", lambda: G.dbal_fast_gaussian_scoring_heteroscedastic([means[p]], [hetero[p]], d, grng(), max_combos=budget))
                if alone is not None:
                    rec.count("metamorphic_checks")
                    rec.check(same(alone[0], het[p], 1e-10), "C05/metamorphic/depends-on-company", lambda: "plate %d (size %d) scores %r alone and %r together with sizes %r" % (p, sizes[p], alone[0], het[p], sizes), w)
            # shuffled experiment order within plates
            perm_m, perm_v = [], []
            for p in range(P):
                o = rng.permutation(sizes[p])
                perm_m.append(means[p][:, o])
                perm_v.append(hetero[p][:, o])
            sh = run("heteroscedastic", lambda: G.dbal_fast_gaussian_scoring_heteroscedastic(perm_m, perm_v, d, grng(), max_combos=budget))
            if sh is not None:
                for p in range(P):
                    rec.count("metamorphic_checks")
                    rec.check(same(sh[p], het[p], 1e-10), "C05/metamorphic/depends-on-experiment-order", lambda: "plate %d: %r after shuffling its experiments, %r before" % (p, sh[p], het[p]), w)
            # shuffled plate order
            o = rng.permutation(P)
            sp = run("heteroscedastic", lambda: G.dbal_fast_gaussian_scoring_heteroscedastic([means[i] for i in o], [hetero[i] for i in o], d, grng(), max_combos=budget))
            if sp is not None:
                for k_, i in enumerate(o):
                    rec.count("metamorphic_checks")
                    rec.check(same(sp[k_], het[i], 1e-10), "C05/metamorphic/depends-on-plate-order", lambda: "plate %d: %r after reordering the plates, %r before" % (i, sp[k_], het[i]), w)
            # consistent relabelling of the thetas
            t = rng.permutation(T)
            rl = run("heteroscedastic", lambda: G.dbal_fast_gaussian_scoring_heteroscedastic([m[t] for m in means], [v[t] for v in hetero], d[np.ix_(t, t)], grng(), max_combos=budget))
            if rl is not None:
                for p in range(P):
                    rec.count("metamorphic_checks")
                    rec.check(same(rl[p], het[p], 1e-10), "C05/metamorphic/depends-on-theta-labels", lambda: "plate %d: %r after relabelling the thetas, %r before" % (p, rl[p], het[p]), w)

        # ---------------- the scorer entry point
        if ci % 2 == 0:
            n_rows = sum(sizes)
            plate_of = np.concatenate([[p] * sizes[p] for p in range(P)])
            order = rng.permutation(n_rows)  # rows of a plate are scattered over the screen
            plate_of = plate_of[order]
            pn = np.array(["p%02d" % p for p in plate_of], dtype=str)
            screen = Screen(treatment_names=np.array([["a", "b"]] * n_rows, dtype=str), treatment_doses=np.ones((n_rows, 2)), sample_names=np.array(["s"] * n_rows, dtype=str), plate_names=pn)
            name_to_id = dict(zip([str(x) for x in screen.plate_mapping[0]], [int(x) for x in screen.plate_mapping[1]]))
            hetero_mode = bool(rng.random() < 0.6)
            class MirrorHolder(ThetaHolder):
                """a user's collection type: keeps its samples in another internal order and answers get_theta(i) - the
                accessor everything is documented to go through - in the logical one"""

                def get_theta(self, i):
                    return self.thetas[len(self.thetas) - 1 - int(i)]

            mirror = bool(rng.random() < 0.25)
            holder = MirrorHolder(n_thetas=T) if mirror else ThetaHolder(n_thetas=T)
            if mirror:
                rec.count("scorer_runs_on_a_user_defined_collection_type")
            for ti in (range(T - 1, -1, -1) if mirror else range(T)):
                mrow = np.zeros(n_rows)
                vrow = np.zeros(n_rows)
                for p in range(P):
                    rows_ = np.flatnonzero(plate_of == p)
                    mrow[rows_] = means[p][ti]
                    vrow[rows_] = hetero[p][ti] if hetero_mode else homo[p][ti]
                holder.add_theta(StubTheta(mrow, vrow))
            cdm = ChunkedDistanceMatrix(size=T)
            for i in range(T):
                for j in range(i):
                    cdm.add_value(i, j, float(d[i, j]))
            ref = ref_het if hetero_mode else ref_hom
            base = None
            for mc in (1, 2, 3, 50):
                keys = list(range(P))
                if mc == 50:
                    keys = [int(x) for x in rng.permutation(P)]
                plates = {name_to_id["p%02d" % p]: screen.get_plate(name_to_id["p%02d" % p]) for p in keys}
                scorer = G.GaussianDBALScorer(max_chunk=mc, max_triples=budget)
                try:
                    res = scorer.score(plates=plates, distance_matrix=cdm, samples=holder, rng=grng(), progress_bar=False)
                except Exception as e:
                    rec.violation("C05/scorer/raises", "GaussianDBALScorer(max_chunk=%d).score raised %r\n%s" % (mc, e, kit.tb()), w)
                    continue
                rec.count("scorer_entry_runs")
                rec.case(("scorer", mc, hetero_mode, kit.array_hash(d), tuple(sizes)), nontrivial=nontriv)
                got = {int(k): float(v) for k, v in res.items()}
                if mc == 2:
                    # same scorer object, second call, plates handed over in another order: nothing may be carried over
                    keys2 = [int(x) for x in rng.permutation(sorted(plates))]
                    try:
                        res2 = scorer.score(plates={k_: plates[k_] for k_ in keys2}, distance_matrix=cdm, samples=holder, rng=grng(), progress_bar=False)
                        rec.count("metamorphic_checks")
                        rec.check(all(same(float(res2[k_]), got[int(k_)], 1e-10) for k_ in res2), "C05/metamorphic/depends-on-earlier-calls", "a second call of the same scorer object (plates in another order) gives other scores", w)
                    except Exception as e:
                        rec.violation("C05/scorer/raises", "second call of the scorer raised %r" % (e,), w)
                rec.check(sorted(got) == sorted(plates), "C05/scorer/keys", lambda: "scorer returned ids %r for plates %r" % (sorted(got), sorted(plates)), w)
                for p in range(P):
                    pid = name_to_id["p%02d" % p]
                    if pid not in got:
                        continue
                    rec.count("plate_scores_vs_reference")
                    rec.check(same(got[pid], ref[p]), "C05/scorer/differs-from-direct-estimator", lambda: "scorer(max_chunk=%d, %s): plate %d (size %d of %r) scored %r, direct evaluation gives %r" % (mc, "hetero" if hetero_mode else "homo", p, sizes[p], sizes, got[pid], ref[p]), w)
                if base is None:
                    base = got
            # one scorer object that lives as long as the shard (a service scoring one data set after another, with
            # few posterior samples today and more tomorrow): its configured budget still covers every triple
            if comb(T, 3) <= 6000:
                vet = run_shard.__dict__.setdefault("veteran_%d" % shard, G.GaussianDBALScorer(max_chunk=50, max_triples=6000))
                try:
                    resv = vet.score(plates=plates, distance_matrix=cdm, samples=holder, rng=grng(), progress_bar=False)
                    rec.count("scores_by_a_long_lived_scorer_object")
                    for p in range(P):
                        pid = name_to_id["p%02d" % p]
                        rec.count("plate_scores_vs_reference")
                        rec.check(pid in resv and same(float(resv[pid]), ref[p]), "C05/scorer/differs-from-direct-estimator", lambda: "a scorer object used on earlier data sets (budget 6000 >= C(%d,3)): plate %d scored %r, direct evaluation gives %r" % (T, p, resv.get(pid), ref[p]), w)
                except Exception as e:
                    rec.violation("C05/scorer/raises", "a long-lived scorer object raised %r" % (e,), w)
                else:
                    for pid in got:
                        rec.count("metamorphic_checks")
                        rec.check(same(got[pid], base.get(pid, float("nan")), 1e-10), "C05/metamorphic/depends-on-batch-size", lambda: "plate id %d: %r with max_chunk=%d, %r with max_chunk=1" % (pid, got[pid], mc, base.get(pid)), w)
        if ci == 0 and shard == 0 and het is not None:
            rec.sample({"n_thetas": T, "plate_sizes": sizes, "heteroscedastic_scores": [float(x) for x in het], "reference": [float(x) for x in ref_het]})

    cli_end_to_end(rec, tier, rng)
    if shard == 0:
        work_array_scale(rec, rng)

    # ---------------- real posterior samples through the scorer (homoscedastic in practice)
    for _ in range(6 if tier == "quick" else 40):
        kw = gen.realistic_screen_kwargs(rng, n_rows=(6, 30), n_plates=(2, 6), observed="none")
        screen = Screen(**kw)
        sp = ExperimentSpace.from_screen(screen)
        T = int(rng.integers(3, 7))
        holder = ThetaHolder(n_thetas=T)
        for _t in range(T):
            holder.add_theta(gen.random_sparse_combo_theta(rng, sp.n_unique_samples, max(1, sp.n_unique_treatments), scale=1.0))
        d = np.abs(rng.normal(size=(T, T)))
        d = d + d.T
        np.fill_diagonal(d, 0)
        cdm = ChunkedDistanceMatrix(size=T)
        for i in range(T):
            for j in range(i):
                cdm.add_value(i, j, float(d[i, j]))
        plates = {int(p.plate_id): p for p in screen.plates}
        if len(plates) >= 3 and rng.random() < 0.6:
            # what score_chunk hands the scorer when a batch exists: every candidate united with the batch plates, so
            # the views OVERLAP (the batch rows belong to all of them) and are not whole plates any more
            bid = int(rng.choice(sorted(plates)))
            bview = plates[bid]
            plates = {pid: pl.combine(bview) for pid, pl in plates.items() if pid != bid}
            rec.count("scorer_runs_on_overlapping_views")
        try:
            res = G.GaussianDBALScorer(max_chunk=int(rng.choice([1, 2, 50])), max_triples=5000).score(plates=plates, distance_matrix=cdm, samples=holder, rng=grng(), progress_bar=False)
        except Exception as e:
            rec.violation("C05/scorer/raises", "scorer on real samples raised %r" % (e,), None)
            continue
        rec.count("scorer_entry_runs")
        rec.case(("scorer-real", kit.array_hash(screen.observations), T))
        for pid, pl in plates.items():
            m = [th.predict_conditional_mean(pl).tolist() for th in holder.thetas]
            v = [th.predict_conditional_variance(pl).tolist() for th in holder.thetas]
            r = dbal_ref.plate_score(m, v, d.tolist())
            rec.count("plate_scores_vs_reference")
            rec.check(same(float(res[pid]), r), "C05/scorer/differs-from-direct-estimator", lambda: "real samples: plate %d scored %r, direct evaluation %r" % (pid, float(res[pid]), r), None)
