"""C15 - combination unranking is a bijection; scoring triples distinct and complete."""
from math import comb

import numpy as np

from .. import kit

PROP, NUM = "C15", 15
LEVEL = "exploration"
SHARDS = {"quick": 8, "thorough": 16}
TIMEOUT = {"quick": 900, "thorough": 5400}
RULE = (
    "exhaustive: every index of every (n,k) with n<=N_EXH, k<=4 is unranked by the real function and "
    "re-ranked by an independent combinatorial-number-system rank (big ints); sampled: indices near both "
    "ends, around every C(m,k) boundary and uniform for large n; scorer: real DBAL kernel runs with the "
    "unranking function wrapped. A case is one (n,k,index) or one scorer run; distinct = distinct (n,k,index) "
    "resp. (n_thetas,budget) pairs; trivial cases (k=0 or C(n,k)<=1) are not counted as non-trivial"
)
ASSUMPTIONS = [
    "indices beyond the explored n (exhaustive n<=N_EXH, sampled n<=5000) and k>4 are not covered",
]
REQUIRED = {"scorer_counting_runs_with_coinciding_samples": {"quick": 5, "thorough": 30}, "scorer_counting_runs_at_scale": {"quick": 1, "thorough": 1}, "unrank_checked": {"quick": 100000, "thorough": 1000000}, "scorer_runs": {"quick": 20, "thorough": 100}, "scorer_runs_production_regime": {"quick": 10, "thorough": 60}, "scorer_counting_runs": {"quick": 40, "thorough": 300}, "scorer_object_counting_runs": {"quick": 20, "thorough": 120}}

N_EXH = {"quick": 40, "thorough": 64}
BIG_N = [100, 317, 1000, 2000, 5000]


def rank(t):
    k = len(t)
    return sum(comb(c, k - j) for j, c in enumerate(t))


def check_tuple(rec, fn, index, n, k, witness_extra=None):
    try:
        t = fn(index, n, k)
    except Exception as e:  # the function must return for every valid index
        rec.violation("C15/unrank/raises", "unrank(%d,%d,%d) raised %r" % (index, n, k, e), {"index": index, "n": n, "k": k})
        return None
    rec.count("unrank_checked")
    ok = (
        isinstance(t, tuple)
        and len(t) == k
        and all(isinstance(x, (int, np.integer)) for x in t)
        and all(0 <= x < n for x in t)
        and all(t[i] > t[i + 1] for i in range(k - 1))
    )
    rec.check(ok, "C15/unrank/not-a-descending-subset", lambda: "unrank(%d,n=%d,k=%d) = %r" % (index, n, k, t), {"index": index, "n": n, "k": k, "tuple": list(map(int, t)) if isinstance(t, tuple) else repr(t)})
    if ok:
        r = rank(tuple(int(x) for x in t))
        rec.check(r == index, "C15/unrank/rank-mismatch", lambda: "unrank(%d,n=%d,k=%d) = %r whose rank is %d" % (index, n, k, t, r), {"index": index, "n": n, "k": k, "tuple": list(map(int, t)), "rank": r})
    return t


def run_shard(rec, tier, seed, shard, nshards):
    from batchie.scoring import gaussian_dbal as G

    fn = G.get_combination_at_sorted_index
    rng = kit.rng_for(seed, NUM, shard)

    # ---- exhaustive part, (n,k) pairs dealt round-robin by cost
    pairs = [(n, k) for n in range(0, N_EXH[tier] + 1) for k in range(0, 5)]
    pairs.sort(key=lambda p: -comb(p[0], p[1]))
    mine = pairs[shard::nshards]
    for n, k in mine:
        total = comb(n, k)
        prev = None
        for index in range(total):
            rec.case(("exh", n, k, index), nontrivial=(k > 0 and total > 1))
            t = check_tuple(rec, fn, index, n, k)
            if t is not None and prev is not None:
                rec.check(tuple(prev) < tuple(t), "C15/unrank/not-ascending", lambda: "unrank(%d)=%r !< unrank(%d)=%r n=%d k=%d" % (index - 1, prev, index, t, n, k), {"n": n, "k": k, "index": index})
            prev = t
        rec.count("exhaustive_pairs")
        rec.count("exhaustive_indices", total)
    if shard == 0:
        rec.sample({"kind": "exhaustive", "n": 7, "k": 3, "index": 17, "tuple": list(fn(17, 7, 3))})

    # ---- sampled part for large n
    per = 400 if tier == "quick" else 4000
    for n in BIG_N:
        for k in (2, 3, 4):
            total = comb(n, k)
            idxs = set()
            for i in range(6):
                idxs.add(i)
                idxs.add(total - 1 - i)
            for _ in range(per // 4):
                m = int(rng.integers(k, n + 1))
                b = comb(m, k)
                for d in (-2, -1, 0, 1, 2):
                    if 0 <= b + d < total:
                        idxs.add(b + d)
            for _ in range(per):
                idxs.add(int(rng.integers(0, 2**62)) % total)
            for index in sorted(idxs):
                rec.case(("smp", n, k, index))
                t = check_tuple(rec, fn, index, n, k)
                if t is not None and index + 1 < total and (index % 3 == 0):
                    t2 = check_tuple(rec, fn, index + 1, n, k)
                    if t2 is not None:
                        rec.count("successor_checked")
                        rec.check(tuple(t) < tuple(t2), "C15/unrank/not-ascending", lambda: "unrank(%d)=%r !< unrank(%d)=%r n=%d k=%d" % (index, t, index + 1, t2, n, k), {"n": n, "k": k, "index": index})
            if shard == 0 and k == 3 and n == 1000:
                i0 = sorted(idxs)[len(idxs) // 2]
                rec.sample({"kind": "sampled", "n": n, "k": k, "index": i0, "tuple": list(fn(i0, n, k))})

    # ---- one counting run at the scale of a real scoring job (a 9000-experiment plate, 25 samples: 2300 triples, all
    #      covered by the budget; ~2e7 cells in the kernel's work arrays)
    if shard == 0:
        n_big, e_big = 25, 9000
        tot_big = comb(n_big, 3)
        pred_big = np.tile(rng.normal(size=(1, 1, e_big)), (1, n_big, 1))
        try:
            sc_big = G.dbal_fast_gauss_scoring_vectorized(pred_big, np.ones((1, n_big, e_big)), np.ones((n_big, n_big)) - np.eye(n_big), np.random.default_rng(3), max_combos=5000)
        except Exception as e:
            rec.violation("C15/scorer/raises", "counting run at scale raised %r" % (e,), {"n_thetas": n_big, "experiments": e_big})
        else:
            # every triple contributes log 3 - (E/2) log 3; the log of their number is what is left
            log_used = float(np.asarray(sc_big, dtype=float)[0]) - (np.log(3.0) + e_big * (-0.5 * np.log(3.0)))
            rec.count("scorer_counting_runs_at_scale")
            rec.check(abs(log_used - np.log(tot_big)) <= 1e-6, "C15/scorer/triples-not-all-used", lambda: "one plate of %d experiments, %d samples, budget 5000: the kernel evaluated %.1f triples, all %d are covered by the budget" % (e_big, n_big, float(np.exp(log_used)), tot_big), {"n_thetas": n_big, "budget": 5000, "experiments": e_big})
        del pred_big

    # ---- scorer runs: triples actually used by the kernel
    calls = []

    def mk(orig):
        def w(index, n, k):
            t = orig(index, n, k)
            calls.append((int(index), int(n), int(k), tuple(int(x) for x in t)))
            return t

        return w

    n_runs = 9 if tier == "quick" else 36
    with kit.Patches() as P:
        P.wrap(G, "get_combination_at_sorted_index", mk)
        for run in range(n_runs):
            if run % 3 == 2:
                # production regime: hundreds of posterior samples, budget far below C(n,3); a draw WITH
                # replacement would show here as a birthday collision (m^2/2N expected duplicates)
                n_thetas = int(rng.choice([60, 100, 150, 300, 1700, 2600, 4000]))  # C(n,3) up to 1e10
                total = comb(n_thetas, 3)
                budget = int(rng.choice([300, 1000, 5000]))
                while budget * budget < 3 * total:
                    budget *= 2
                budget = min(budget, 8000)
                rec.count("scorer_runs_production_regime")
            else:
                n_thetas = int(rng.choice([3, 4, 5, 6, 9, 12, 17, 20, 25, 33, 40]))
                total = comb(n_thetas, 3)
                budget = int(rng.choice([1, 2, total - 1 if total > 1 else 1, total, total + 5, 50, 5000, 20000]))
            budget = max(1, budget)
            n_plates = int(rng.integers(1, 4))
            E = int(rng.integers(1, 5))
            preds = rng.normal(size=(n_plates, n_thetas, E))
            var = np.exp(rng.normal(size=(n_plates, n_thetas, E)))
            d = np.abs(rng.normal(size=(n_thetas, n_thetas)))
            d = d + d.T
            np.fill_diagonal(d, 0.0)
            del calls[:]
            rec.case(("scorer", n_thetas, budget))
            drec = RecordingDistances.wrap(d)
            try:
                G.dbal_fast_gauss_scoring_vectorized(preds, var, drec, np.random.default_rng(int(rng.integers(0, 2**31))), max_combos=budget)
            except Exception as e:
                rec.violation("C15/scorer/raises", "kernel raised %r for n_thetas=%d budget=%d" % (e, n_thetas, budget), {"n_thetas": n_thetas, "budget": budget})
                continue
            # the triples are read at the kernel's boundary - which entries of the distance matrix it looked up - and,
            # when the kernel unranks through get_combination_at_sorted_index, from that function's results as well
            seen = drec.triples()
            via_unranker = [c[3] for c in calls]
            if seen is None and not via_unranker:
                rec.count("scorer_runs_unobservable")  # neither channel saw anything: no verdict from this run
                continue
            if seen is not None and via_unranker:
                rec.count("scorer_runs_both_channels")
                rec.check(sorted(seen) == sorted(via_unranker), "C15/scorer/unranked-triples-not-the-ones-used", lambda: "the kernel unranked %d triples but looked up the distances of %d other ones (n=%d budget=%d)" % (len(via_unranker), len(set(seen) ^ set(via_unranker)), n_thetas, budget), {"n_thetas": n_thetas, "budget": budget})
            triples = seen if seen is not None else via_unranker
            rec.count("scorer_runs")
            rec.count("scorer_triples", len(triples))
            want = min(total, budget)
            rec.check(len(triples) == want, "C15/scorer/wrong-number-of-triples", lambda: "%d triples used, expected %d (n=%d budget=%d)" % (len(triples), want, n_thetas, budget), {"n_thetas": n_thetas, "budget": budget})
            rec.check(len(set(triples)) == len(triples), "C15/scorer/duplicate-triples", lambda: "%d triples, %d distinct (n=%d budget=%d)" % (len(triples), len(set(triples)), n_thetas, budget), {"n_thetas": n_thetas, "budget": budget})
            okr = all(len(t) == 3 and n_thetas > t[0] > t[1] > t[2] >= 0 for t in triples)
            rec.check(okr, "C15/scorer/triple-out-of-range", lambda: "bad triple among %r" % triples[:10], {"n_thetas": n_thetas, "budget": budget})
            if budget >= total:
                rec.count("scorer_runs_full_budget")
                allt = {(a, b, c) for a in range(n_thetas) for b in range(a) for c in range(b)}
                rec.check(set(triples) == allt, "C15/scorer/triples-incomplete", lambda: "budget %d covers all %d triples but %d distinct were used" % (budget, total, len(set(triples))), {"n_thetas": n_thetas, "budget": budget})
            else:
                rec.count("scorer_runs_subsampled")
            if run == 0 and shard == 0:
                rec.sample({"kind": "scorer", "n_thetas": n_thetas, "budget": budget, "first_triples": [list(t) for t in triples[:4]]})
            # counting run: identical posterior samples, unit variances, unit distances -> every triple contributes the
            # same term, so the score reveals how many triples were really evaluated (not merely unranked)
            Pn, En = int(rng.integers(1, 4)), int(rng.integers(1, 4))
            same_pred = np.tile(rng.normal(size=(Pn, 1, En)), (1, n_thetas, 1))
            ones = np.ones((Pn, n_thetas, En))
            dd = np.ones((n_thetas, n_thetas)) - np.eye(n_thetas)
            try:
                sc = G.dbal_fast_gauss_scoring_vectorized(same_pred, ones, dd, np.random.default_rng(int(rng.integers(0, 2**31))), max_combos=budget)
            except Exception as e:
                rec.violation("C15/scorer/raises", "counting run raised %r" % (e,), {"n_thetas": n_thetas, "budget": budget})
                continue
            term = np.log(3.0) + En * (-0.5 * np.log(3.0))
            used = np.exp(np.asarray(sc, dtype=float) - term)
            rec.count("scorer_counting_runs")
            rec.check(bool(np.all(np.abs(used - want) <= 1e-6 * want)), "C15/scorer/triples-not-all-used", lambda: "the kernel evaluated %r triples, %d were selected (n_thetas=%d, budget=%d, C(n,3)=%d)" % (np.round(used, 3).tolist(), want, n_thetas, budget, total), {"n_thetas": n_thetas, "budget": budget})

            if budget >= total and n_thetas >= 4:
                # the weighted counting run: two posterior samples coincide (distance exactly 0 between them, 1 elsewhere).
                # A triple that contains the pair still weighs 2 of 3: with all triples covered the score reveals the
                # total weight 3*C(n,3) - 2... i.e. sum over triples of (d_ij + d_jk + d_ik)
                dz = dd.copy()
                npairs = int(rng.integers(1, 3))
                zp = set()
                while len(zp) < npairs:
                    i_, j_ = sorted(int(x) for x in rng.choice(n_thetas, size=2, replace=False))
                    zp.add((i_, j_))
                for i_, j_ in zp:
                    dz[i_, j_] = dz[j_, i_] = 0.0
                import itertools as _it

                want_w = sum(dz[a, b] + dz[b, c] + dz[a, c] for a, b, c in _it.combinations(range(n_thetas), 3)) / 3.0
                try:
                    scz = G.dbal_fast_gauss_scoring_vectorized(same_pred, ones, dz, np.random.default_rng(int(rng.integers(0, 2**31))), max_combos=budget)
                    used_w = np.exp(np.asarray(scz, dtype=float) - term)
                    rec.count("scorer_counting_runs_with_coinciding_samples")
                    rec.check(bool(np.all(np.abs(used_w - want_w) <= 1e-6 * want_w)), "C15/scorer/triples-not-all-used", lambda: "with samples %r at distance 0 the kernel's score corresponds to a total triple weight of %r (in units of 3), all %d triples weigh %r" % (sorted(zp), np.round(used_w, 3).tolist(), total, want_w), {"n_thetas": n_thetas, "budget": budget, "zero_pairs": sorted(zp)})
                except Exception as e:
                    rec.violation("C15/scorer/raises", "weighted counting run raised %r" % (e,), {"n_thetas": n_thetas, "budget": budget})

            # the same counting run through the production entry point: a GaussianDBALScorer object configured with
            # this budget, a real Screen, a ThetaHolder of stub samples and a complete ChunkedDistanceMatrix
            scorer_object_counting_run(rec, rng, G, n_thetas, budget, total)


class RecordingDistances(np.ndarray):
    """A distance matrix that remembers which (row, column) index arrays were looked up."""

    @classmethod
    def wrap(cls, d):
        o = np.asarray(d, dtype=float).view(cls)
        o.lookups = []
        return o

    def __array_finalize__(self, obj):
        self.lookups = getattr(obj, "lookups", [])

    def __getitem__(self, key):
        if isinstance(key, tuple) and len(key) == 2:
            a, b = np.asarray(key[0]), np.asarray(key[1])
            if a.ndim == 1 and a.shape == b.shape and a.dtype.kind in "iu" and b.dtype.kind in "iu":
                self.lookups.append((a.astype(np.int64).copy(), b.astype(np.int64).copy()))
        return np.asarray(np.ndarray.__getitem__(self.view(np.ndarray), key))

    def triples(self):
        """the triples whose three pairwise distances were looked up, or None when the look-ups do not have that shape"""
        L = self.lookups
        if len(L) != 3 or len({len(a) for a, _ in L}) != 1:
            return None
        m = len(L[0][0])
        out = []
        for i in range(m):
            members = {int(L[j][k][i]) for j in range(3) for k in range(2)}
            pairs = {frozenset((int(L[j][0][i]), int(L[j][1][i]))) for j in range(3)}
            if len(members) != 3 or len(pairs) != 3:
                out.append(tuple(sorted((int(L[j][k][i]) for j in range(3) for k in range(2)), reverse=True)))  # malformed: reported as is
            else:
                out.append(tuple(sorted(members, reverse=True)))
        return out


def scorer_object_counting_run(rec, rng, G, n_thetas, budget, total):
    from batchie.core import Theta, ThetaHolder
    from batchie.data import Screen
    from batchie.distance_calculation import ChunkedDistanceMatrix

    class Same(Theta):
        """every posterior sample predicts the same means with unit variance"""

        def __init__(self, mean):
            self.mean = mean

        def predict_conditional_mean(self, data):
            return self.mean[np.asarray(data.selection_vector)].copy()

        def predict_conditional_variance(self, data):
            return np.ones(int(np.asarray(data.selection_vector).sum()))

        def predict_viability(self, data):
            return self.predict_conditional_mean(data)

    if n_thetas > 60:
        return  # the all-ones distance matrix below is filled pair by pair
    sizes = [int(rng.integers(1, 4)) for _ in range(int(rng.integers(1, 4)))]
    n_rows = sum(sizes)
    pn = np.array(["p%02d" % p for p, e in enumerate(sizes) for _ in range(e)], dtype=str)
    screen = Screen(treatment_names=np.array([["a", "b"]] * n_rows, dtype=str), treatment_doses=np.ones((n_rows, 2)), sample_names=np.array(["s"] * n_rows, dtype=str), plate_names=pn)
    mean = rng.normal(size=n_rows)
    holder = ThetaHolder(n_thetas=n_thetas)
    for _ in range(n_thetas):
        holder.add_theta(Same(mean))
    cdm = ChunkedDistanceMatrix(size=n_thetas)
    for i in range(n_thetas):
        for j in range(i):
            cdm.add_value(i, j, 1.0)
    plates = {int(p.plate_id): p for p in screen.plates}
    want = min(total, budget)
    try:
        if rng.random() < 0.3:
            # the budget is a public attribute: built with another value, scored once, then set to this one
            sc_obj = G.GaussianDBALScorer(max_chunk=int(rng.choice([1, 2, 50])), max_triples=int(rng.choice([1, 4, 5000])))
            if rng.random() < 0.5:
                sc_obj.score(plates=plates, distance_matrix=cdm, samples=holder, rng=np.random.default_rng(1), progress_bar=False)
            sc_obj.max_triples = budget
            rec.count("scorer_objects_with_reassigned_budget")
        elif rng.random() < 0.4:
            # the two documented parameters given by position, in their documented order (max_chunk, max_triples)
            sc_obj = G.GaussianDBALScorer(int(rng.choice([1, 2, 50])), budget)
            rec.count("scorer_objects_built_with_positional_arguments")
        else:
            sc_obj = G.GaussianDBALScorer(max_chunk=int(rng.choice([1, 2, 50])), max_triples=budget)
        res = sc_obj.score(plates=plates, distance_matrix=cdm, samples=holder, rng=np.random.default_rng(int(rng.integers(0, 2**31))), progress_bar=False)
    except Exception as e:
        rec.violation("C15/scorer/raises", "GaussianDBALScorer(max_triples=%d).score raised %r" % (budget, e), {"n_thetas": n_thetas, "budget": budget})
        return
    rec.count("scorer_object_counting_runs")
    for pid, sc in res.items():
        e = int(plates[int(pid)].size)
        term = np.log(3.0) + e * (-0.5 * np.log(3.0))
        used = float(np.exp(float(sc) - term))
        rec.check(abs(used - want) <= 1e-6 * want, "C15/scorer/triples-not-all-used", lambda: "GaussianDBALScorer(max_triples=%d) evaluated %.3f triples on plate %d, %d expected (n_thetas=%d, C(n,3)=%d)" % (budget, used, int(pid), want, n_thetas, total), {"n_thetas": n_thetas, "budget": budget, "via": "scorer object"})


def coverage_extra(tier, counters):
    return {
        "exhaustive": False,
        "exhaustive_subspace": "all indices for n<=%d, k<=4 (%d indices) enumerated completely; larger n sampled" % (N_EXH[tier], counters.get("exhaustive_indices", 0)),
    }
