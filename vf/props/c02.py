"""C02 - screen and experiment-space persistence is lossless."""
import os

import numpy as np

from .. import kit, gen

PROP, NUM = "C02", 2
LEVEL = "exploration"
SHARDS = {"quick": 8, "thorough": 16}
TIMEOUT = {"quick": 900, "thorough": 5400}
RULE = (
    "hostile screens (non-ASCII/empty/unequal-length names, empty control name, hostile doses, observations incl. NaN, "
    "+-inf, -0.0, subnormals in front of and behind a plate-uniform mask), screens whose mappings are strict supersets of "
    "their rows (built by the real hold-out split and by re-construction with a supplied mapping), screens whose plates "
    "were merged in place before saving, zero-row screens; "
    "1-4 consecutive save/load cycles through real h5 files; every observable compared (strings by value, floats by "
    "bits, ids and mappings incl. rows absent from the data); same for ExperimentSpace. A case is one screen x cycle "
    "count; distinct = hash of all fields; non-trivial = at least 2 rows and 2 distinct treatment pairs"
)
ASSUMPTIONS = ["h5 files are compared through their loaded content, never byte-wise", "a change of the <U width of a string array on load is not a difference"]
REQUIRED = {"file_name_style_1": {"quick": 200, "thorough": 1500}, "file_name_style_3": {"quick": 200, "thorough": 1500}, "very_large_screens": {"quick": 2, "thorough": 6}, "supplied_mappings_with_permuted_ids": {"quick": 100, "thorough": 1000}, "plate_merges_before_save": {"quick": 200, "thorough": 2000}, "roundtrips_checked": {"quick": 2000, "thorough": 15000}, "superset_mapping_roundtrips": {"quick": 500, "thorough": 4000}, "space_roundtrips": {"quick": 600, "thorough": 5000}}
N_CASES = {"quick": 2400, "thorough": 19200}

WEIRD_OBS = [float("nan"), float("inf"), float("-inf"), -0.0, 0.0, 5e-324, 1e-310, -1.0, 1.0, 0.1 + 0.2, 1e308, np.float64(np.nextafter(1.0, 2.0))]


def fields(s):
    return {
        "treatment_names": ("s", s.treatment_names),
        "treatment_doses": ("f", s.treatment_doses),
        "sample_names": ("s", s.sample_names),
        "plate_names": ("s", s.plate_names),
        "observations": ("f", s.observations),
        "observation_mask": ("b", s.observation_mask),
        "treatment_ids": ("i", s.treatment_ids),
        "sample_ids": ("i", s.sample_ids),
        "plate_ids": ("i", s.plate_ids),
        "treatment_mapping_names": ("s", s.treatment_mapping[0]),
        "treatment_mapping_doses": ("f", s.treatment_mapping[1]),
        "treatment_mapping_ids": ("i", s.treatment_mapping[2]),
        "sample_mapping_names": ("s", s.sample_mapping[0]),
        "sample_mapping_ids": ("i", s.sample_mapping[1]),
        "plate_mapping_names": ("s", s.plate_mapping[0]),
        "plate_mapping_ids": ("i", s.plate_mapping[1]),
    }


def compare(rec, a, b, what, w):
    fa, fb = fields(a), fields(b)
    ok = True
    for k, (kind, va) in fa.items():
        vb = fb[k][1]
        va, vb = np.asarray(va), np.asarray(vb)
        if kind == "s":
            eq = kit.str_equal(va, vb)
        elif kind == "f":
            eq = va.shape == vb.shape and vb.dtype == np.float64 and kit.raw_bytes(va.astype(np.float64)) == kit.raw_bytes(vb)
        elif kind == "b":
            eq = va.shape == vb.shape and vb.dtype == bool and np.array_equal(va, vb)
        else:
            eq = va.shape == vb.shape and vb.dtype.kind in "iu" and np.array_equal(va.astype(np.int64), vb.astype(np.int64))
        if not rec.check(eq, "C02/roundtrip/%s-differs" % k, lambda: "%s: field %s differs after save/load: %r -> %r" % (what, k, va.tolist()[:8], vb.tolist()[:8]), w):
            ok = False
    rec.check(str(a.control_treatment_name) == str(b.control_treatment_name), "C02/roundtrip/control-name-differs", lambda: "%s: control name %r -> %r" % (what, a.control_treatment_name, b.control_treatment_name), w)
    return ok


def screen_hash(s):
    return kit.digest([kit.array_hash(v[1]) for v in fields(s).values()] + [str(s.control_treatment_name)])


def run_shard(rec, tier, seed, shard, nshards):
    from batchie.data import Screen, ExperimentSpace
    from batchie import retrospective as R

    rng = kit.rng_for(seed, NUM, shard)
    n_cases = N_CASES[tier] // nshards
    with kit.scratch_dir("vf-c02-") as tmp:
        fn = os.path.join(tmp, "s.h5")
        for ci in range(n_cases):
            kind = str(rng.choice(["hostile", "merged", "holdout", "supplied", "zero"], p=[0.45, 0.1, 0.2, 0.2, 0.05]))
            if ci == 0 and shard < (2 if tier == "quick" else 6):
                kind = "very-large"
            try:
                if kind == "very-large":
                    # a screen of the size of a real library screen: more rows than any plausible internal block size,
                    # plates numbered upwards (the longest plate names come last), a long non-ASCII sample name and a
                    # long treatment name only in the last rows
                    n_big, per = [(70000, 700), (135000, 1350), (66000, 660)][int(rng.integers(3))]  # 100 plates: 'p100' only at the end
                    idx = np.arange(n_big)
                    pn_ = np.array(["p%d" % (i // per + 1) for i in idx], dtype=str)
                    sn_ = np.array(["s%d" % (i % 7) for i in idx], dtype=object)
                    sn_[-40:] = "a-sample-with-a-much-longer-name-\u00e9\u03b2"
                    tn_ = np.array([["d%d" % (i % 11), "e%d" % (i % 5)] for i in idx], dtype=object)
                    tn_[-50:, 1] = "a-treatment-that-only-occurs-at-the-very-end"
                    td_ = np.stack([1.0 + (idx % 3), 0.5 * (1 + idx % 2)], axis=1).astype(float)
                    s = Screen(treatment_names=tn_.astype(str), treatment_doses=td_, sample_names=sn_.astype(str), plate_names=pn_, observations=rng.random(n_big), observation_mask=np.isin(pn_, ["p1", "p2"]))
                    rec.count("very_large_screens")
                elif kind == "hostile":
                    kw = gen.hostile_screen_kwargs(rng)
                    if "observations" in kw:
                        obs = kw["observations"].copy()
                        for _ in range(int(rng.integers(0, 4))):
                            obs[int(rng.integers(len(obs)))] = WEIRD_OBS[int(rng.integers(len(WEIRD_OBS)))]
                        kw["observations"] = obs
                    if rng.random() < 0.3:
                        kw["control_treatment_name"] = ""
                    if rng.random() < 0.15:
                        # the control name taken out of a name array or a table column: a numpy string (which is a str)
                        kw["control_treatment_name"] = np.array([kw["control_treatment_name"]])[0]
                        rec.count("screens_with_a_numpy_string_as_control_name")
                    s = Screen(**kw)
                elif kind == "merged":
                    # a screen whose plates were merged in place (what the merge smoothers do) before it is saved
                    kw = gen.hostile_screen_kwargs(rng, n=int(rng.integers(4, 40)))
                    kw.pop("observation_mask", None)
                    s = Screen(**kw)
                    for _ in range(int(rng.integers(1, 4))):
                        pls = s.plates
                        if len(pls) < 2:
                            break
                        i, j = (int(x) for x in rng.choice(len(pls), size=2, replace=False))
                        pls[i].merge(pls[j])
                        rec.count("plate_merges_before_save")
                elif kind == "holdout":
                    kw = gen.realistic_screen_kwargs(rng, observed=str(rng.choice(["none", "some"])), singletons=0.25, control=str(rng.choice(["", "DMSO", "é"])))
                    full = Screen(**kw)
                    frac = float(rng.choice([0.0, 0.1, 0.3, 0.6, 1.0]))
                    tr, te = R.create_plate_balanced_holdout_set_among_masked_plates(full, frac, rng)
                    s = tr if rng.random() < 0.5 else te
                elif kind == "supplied":
                    kw = gen.hostile_screen_kwargs(rng, n=int(rng.integers(3, 30)))
                    full = Screen(**kw)
                    sel = rng.random(full.size) < 0.5
                    if not sel.any():
                        sel[0] = True
                    kw2 = {k: (v[sel] if isinstance(v, np.ndarray) else v) for k, v in kw.items() if k != "observation_mask"}
                    tmap, smap = full.treatment_mapping, full.sample_mapping
                    if rng.random() < 0.4:
                        # a dense numbering that does not follow the listing order (the constructor follows it verbatim)
                        sm_ids = np.asarray(smap[1]).copy()
                        smap = (np.asarray(smap[0]).copy(), sm_ids[rng.permutation(len(sm_ids))])
                        t_ids = np.asarray(tmap[2]).copy()
                        nc = np.flatnonzero(t_ids >= 0)
                        t_ids[nc] = t_ids[nc][rng.permutation(len(nc))]
                        tmap = (np.asarray(tmap[0]).copy(), np.asarray(tmap[1]).copy(), t_ids)
                        rec.count("supplied_mappings_with_permuted_ids")
                    s = Screen(treatment_mapping=tmap, sample_mapping=smap, **kw2)
                else:
                    ar = int(rng.integers(1, 4))
                    base = Screen(**gen.hostile_screen_kwargs(rng, arity=ar))
                    maps = dict(treatment_mapping=base.treatment_mapping, sample_mapping=base.sample_mapping) if rng.random() < 0.5 else {}
                    s = Screen(treatment_names=np.zeros((0, ar), dtype="<U1"), treatment_doses=np.zeros((0, ar)), sample_names=np.zeros(0, dtype="<U1"), plate_names=np.zeros(0, dtype="<U1"), observations=np.zeros(0), control_treatment_name=base.control_treatment_name, **maps)
            except Exception as e:
                rec.case(None, nontrivial=False)
                rec.did_not_return("construct-" + kind, e)
                continue
            n_cycles = int(rng.integers(1, 5)) if kind != "very-large" else 1
            superset = len(s.treatment_mapping[0]) > len(set(zip([str(x) for x in s.treatment_names.ravel()], [float(x) for x in s.treatment_doses.ravel()]))) or len(s.sample_mapping[0]) > len(set(str(x) for x in s.sample_names))
            rec.case((screen_hash(s), n_cycles), nontrivial=s.size >= 2 and len(s.treatment_mapping[0]) >= 2)
            w = {"kind": kind, "size": int(s.size), "arity": int(s.treatment_arity), "control": s.control_treatment_name, "names": s.treatment_names.tolist()[:5], "doses": s.treatment_doses.tolist()[:5], "superset_mapping": bool(superset)}
            prev = s
            ok = True
            # the archive is named the way callers name files: an absolute path, a bare file name relative to the
            # working directory, a relative path with a directory, a pathlib.Path, a name with blanks
            style = int(rng.integers(0, 6)) if kind != "very-large" else 0
            cwd0 = os.getcwd()
            os.chdir(tmp)
            fn_abs = fn
            if style == 1:
                fn = "s.h5"
            elif style == 2:
                os.makedirs(os.path.join(tmp, "sub dir"), exist_ok=True)
                fn = os.path.join("sub dir", "s with blanks.h5")
            elif style == 3:
                import pathlib

                fn = pathlib.Path("s.h5")
            elif style == 4:
                import pathlib

                fn = pathlib.Path(tmp) / "s.h5"
            elif style == 5:
                import pathlib

                # a Path with a directory part, relative to a working directory that is not that directory
                os.makedirs(os.path.join(tmp, "run-%d" % (ci % 2)), exist_ok=True)
                fn = pathlib.Path("run-%d" % (ci % 2)) / "screen.h5"
            rec.count("file_name_style_%d" % style)
            for cyc in range(n_cycles):
                try:
                    h0 = screen_hash(prev)
                    prev.save_h5(fn)
                    rec.check(screen_hash(prev) == h0, "C02/save/mutates-screen", "save_h5 changed the screen it saved", w)
                except Exception as e:
                    rec.violation("C02/save/raises" if s.size else "C02/zero-row-screen/save_h5-raises", "save_h5 raised %r (cycle %d)" % (e, cyc + 1), w)
                    ok = False
                    break
                try:
                    # the file is where its name says, whichever way the name is spelled: every second cycle reads it
                    # back through the other spelling (str <-> Path, relative <-> absolute)
                    fn_load = fn
                    if cyc % 2 == 1 or n_cycles == 1:
                        import pathlib

                        fn_load = os.path.abspath(os.fspath(fn)) if isinstance(fn, pathlib.PurePath) else pathlib.Path(os.path.abspath(fn))
                        rec.count("loads_through_the_other_spelling_of_the_path")
                    cur = Screen.load_h5(fn_load)
                except Exception as e:
                    key = "C02/zero-row-screen/load_h5-raises" if s.size == 0 else "C02/load/raises-on-own-file"
                    rec.count("oracle_evals")
                    rec.violation(key, "load_h5 raised %r on a file batchie just wrote (kind=%s, size=%d, cycle %d)" % (e, kind, s.size, cyc + 1), w)
                    ok = False
                    break
                compare(rec, prev, cur, "cycle %d" % (cyc + 1), w)
                prev = cur
            if ok and kind != "very-large" and s.size >= 2 and rng.random() < 0.4:
                # ---- objects with a past: a screen that has been saved (s) or loaded and saved (prev) is then changed in
                #      place the way the library changes screens (plates merged, a plate's results recorded) and saved again
                for label, obj in (("saved before", s), ("loaded and saved before", prev)):
                    changed = []
                    try:
                        un = [p for p in obj.plates if not p.is_observed]
                        if un and rng.random() < 0.7:
                            pl = un[int(rng.integers(len(un)))]
                            obj.set_observed(pl.selection_vector.copy(), rng.random(pl.size))
                            changed.append("set_observed")
                        for same in (True, False):
                            pls = [p for p in obj.plates if p.is_observed == same]
                            if len(pls) >= 2 and rng.random() < 0.8:
                                i, j = (int(x) for x in rng.choice(len(pls), size=2, replace=False))
                                pls[i].merge(pls[j])
                                changed.append("merge")
                    except Exception as e:
                        rec.did_not_return("change-in-place", e)
                        continue
                    if not changed:
                        continue
                    fn2 = os.path.join(tmp, "again.h5")
                    try:
                        obj.save_h5(fn2)
                        back = Screen.load_h5(fn2)
                    except Exception as e:
                        rec.violation("C02/save/raises", "saving / loading a screen %s and then changed in place (%s) raised %r" % (label, "+".join(changed), e), w)
                        continue
                    rec.count("roundtrips_after_in_place_change")
                    compare(rec, obj, back, "%s, then %s, saved again" % (label, "+".join(changed)), w)
            os.chdir(cwd0)
            fn = fn_abs
            if ok:
                rec.count("roundtrips_checked")
                rec.count("cycles_checked", n_cycles)
                if superset:
                    rec.count("superset_mapping_roundtrips")
                if s.size == 0:
                    rec.count("zero_row_roundtrips")
                if ci < 3 and shard == 0:
                    rec.sample({"kind": kind, "size": int(s.size), "cycles": n_cycles, "control": s.control_treatment_name, "sample_names": s.sample_names.tolist()[:5], "mapping_rows": int(len(s.treatment_mapping[0])), "superset_mapping": bool(superset)})

            # ---- experiment space
            if rng.random() < 0.4:
                sp = ExperimentSpace.from_screen(s)
                fs = os.path.join(tmp, "sp.h5")
                p = sp
                good = True
                for cyc in range(int(rng.integers(1, 4))):
                    try:
                        p.save_h5(fs)
                        q = ExperimentSpace.load_h5(fs)
                    except Exception as e:
                        key = "C02/zero-row-screen/space-roundtrip-raises" if len(sp.treatment_mapping[0]) == 0 or len(sp.sample_mapping[0]) == 0 else "C02/space/roundtrip-raises"
                        rec.violation(key, "ExperimentSpace save/load raised %r" % (e,), w)
                        good = False
                        break
                    eq = (
                        kit.str_equal(p.treatment_mapping[0], q.treatment_mapping[0])
                        and kit.raw_bytes(np.asarray(p.treatment_mapping[1], dtype=np.float64)) == kit.raw_bytes(np.asarray(q.treatment_mapping[1]))
                        and np.array_equal(np.asarray(p.treatment_mapping[2]).astype(np.int64), np.asarray(q.treatment_mapping[2]).astype(np.int64))
                        and kit.str_equal(p.sample_mapping[0], q.sample_mapping[0])
                        and np.array_equal(np.asarray(p.sample_mapping[1]).astype(np.int64), np.asarray(q.sample_mapping[1]).astype(np.int64))
                        and str(p.control_treatment_name) == str(q.control_treatment_name)
                        and p.n_unique_samples == q.n_unique_samples
                        and p.n_unique_treatments == q.n_unique_treatments
                    )
                    rec.check(eq, "C02/space/roundtrip-differs", "ExperimentSpace differs after save/load (cycle %d)" % (cyc + 1), w)
                    p = q
                if good:
                    rec.count("space_roundtrips")
