"""C10 - posterior-sample collections persist exactly and keep chain-major order."""
import os

import numpy as np

from .. import kit, gen

PROP, NUM = "C10", 10
LEVEL = "exploration"
SHARDS = {"quick": 8, "thorough": 16}
TIMEOUT = {"quick": 900, "thorough": 5400}
RULE = (
    "collections of 1-25 samples per chain (>=10 in half of the cases: numeric vs lexicographic group order), 1-4 chains, "
    "both shipped MCMC sample types (interaction type with an empty and a populated single-effect table), adversarial "
    "float64 parameters (subnormals, +-0, values that do not survive float32, 1+-2^-52, 1e+-300) and a unique "
    "alpha/precision tag per (chain, step); save/load through real h5 files, concat, evaluate_model CLI in-process with "
    "the chain files in random order; refusal clauses. A case is one holder round trip, one concat, one CLI run or one "
    "refusal; distinct = hash of parameters and layout; non-trivial = >=2 samples in the holder"
)
ASSUMPTIONS = ["a value-preserving widening of a parameter dtype on load is accepted, a narrowing never"]
REQUIRED = {"roundtrips_with_two_sample_classes_of_one_name": {"quick": 40, "thorough": 300}, "cli_runs_with_equal_file_names": {"quick": 6, "thorough": 100}, "partial_roundtrips_checked": {"quick": 60, "thorough": 1200}, "roundtrips_checked": {"quick": 200, "thorough": 5000}, "samples_compared": {"quick": 2000, "thorough": 50000}, "roundtrips_ge_10_samples": {"quick": 60, "thorough": 1500}, "concats_checked": {"quick": 60, "thorough": 1500}, "cli_runs": {"quick": 20, "thorough": 400}, "refusals_checked": {"quick": 150, "thorough": 3000}, "refused_saves_checked": {"quick": 80, "thorough": 1500}}
N_CASES = {"quick": 800, "thorough": 9600}

ADV = [5e-324, -5e-324, 1e-310, 0.0, -0.0, 1.0 + 2**-52, 1.0 - 2**-53, 0.1, 1e300, -1e300, 1e-300, 16777217.0, 3.141592653589793, 2.0**-150]


def adversarial(rng, shape):
    a = rng.normal(size=shape)
    flat = a.reshape(-1)
    for _ in range(int(rng.integers(0, max(2, flat.size // 2 + 1)))):
        flat[int(rng.integers(flat.size))] = ADV[int(rng.integers(len(ADV)))]
    return a


def make_theta(rng, kind, nS, nT, D, tag, lookup=None, adv=True):
    from batchie.models.sparse_combo import SparseDrugComboMCMCSample
    from batchie.models.sparse_combo_interaction import SparseDrugComboInteractionMCMCSample

    f = (lambda shape: adversarial(rng, shape)) if adv else (lambda shape: rng.normal(size=shape))
    if kind == "sparse":
        return SparseDrugComboMCMCSample(W=f((nS, D)), W0=f((nS,)), V2=f((nT, D)), V1=f((nT, D)), V0=f((nT,)), alpha=float(tag), precision=float(1.0 + tag / 7.0))
    return SparseDrugComboInteractionMCMCSample(W=f((nS, D)), V2=f((nT, D)), precision=float(1.0 + tag / 7.0), single_effect_lookup=lookup)


def params(th):
    d = dict(th.private_parameters_dict())
    d.update({"shared:" + k: v for k, v in th.shared_parameters_dict().items()})
    return d


def same_params(a, b):
    pa, pb = params(a), params(b)
    if sorted(pa) != sorted(pb):
        return "parameter names differ: %r vs %r" % (sorted(pa), sorted(pb))
    for k in pa:
        va, vb = pa[k], pb[k]
        if isinstance(va, dict):
            continue
        if isinstance(va, np.ndarray) or isinstance(vb, np.ndarray):
            va, vb = np.asarray(va), np.asarray(vb)
            if va.shape != vb.shape:
                return "%s: shape %r vs %r" % (k, va.shape, vb.shape)
            if va.dtype.kind == "f":
                if vb.dtype.kind != "f" or vb.dtype.itemsize < va.dtype.itemsize or kit.raw_bytes(vb.astype(va.dtype)) != kit.raw_bytes(va) or not np.array_equal(vb.astype(va.dtype).astype(vb.dtype), vb, equal_nan=True):
                    return "%s: float values differ bit-wise (dtype %s -> %s)" % (k, va.dtype, vb.dtype)
            else:
                if not np.array_equal(va, vb):
                    return "%s: values differ" % k
        else:
            fa, fb = np.float64(va), np.float64(vb)
            if kit.raw_bytes(np.array([fa])) != kit.raw_bytes(np.array([fb])):
                return "%s: scalar %r vs %r" % (k, va, vb)
    return None


def run_shard(rec, tier, seed, shard, nshards):
    from batchie.core import ThetaHolder
    from batchie.data import Screen, ExperimentSpace
    from batchie.cli import evaluate_model as cli_eval
    from batchie.models.main import ModelEvaluation

    rng = kit.rng_for(seed, NUM, shard)
    n_cases = N_CASES[tier] // nshards
    with kit.scratch_dir("vf-c10-") as tmp:
        # ---- a user's module defines a sample type with the SAME CLASS NAME as a shipped one (vf/lab_models.py): a
        #      collection comes back as the class it was saved from, and predicts as that class
        from .. import lab_models as LAB
        from batchie.models.sparse_combo import SparseDrugComboMCMCSample as SHIPPED

        for li in range(4 if tier == "quick" else 30):
            kw = gen.realistic_screen_kwargs(rng, n_samples=(1, 4), n_drugs=(2, 5), n_rows=(3, 20), n_plates=(1, 3), observed="all")
            screen = Screen(**kw)
            sp = ExperimentSpace.from_screen(screen)
            n_ = int(rng.integers(1, 4))
            base = [gen.random_sparse_combo_theta(rng, sp.n_unique_samples, max(1, sp.n_unique_treatments), scale=1.0) for _ in range(n_)]
            for cls_ in ((SHIPPED, LAB.SparseDrugComboMCMCSample) if li % 2 == 0 else (LAB.SparseDrugComboMCMCSample, SHIPPED)):
                h = ThetaHolder(n_thetas=n_)
                for t_ in base:
                    h.add_theta(t_ if cls_ is SHIPPED else cls_(W=t_.W, W0=t_.W0, V2=t_.V2, V1=t_.V1, V0=t_.V0, alpha=t_.alpha, precision=t_.precision))
                fn_ = os.path.join(tmp, "same-name.h5")
                rec.case(("same-class-name", li, cls_.__module__), nontrivial=True)
                try:
                    h.save_h5(fn_)
                    g = ThetaHolder(n_thetas=n_).load_h5(fn_)
                except Exception as e:
                    rec.violation("C10/roundtrip/raises", "save / load of a collection of %s.%s raised %r" % (cls_.__module__, cls_.__name__, e), {"class": cls_.__module__})
                    continue
                rec.count("roundtrips_with_two_sample_classes_of_one_name")
                rec.count("oracle_evals")
                ok_ = len(g.thetas) == n_ and all(type(x) is cls_ for x in g.thetas) and all(np.array_equal(np.asarray(a.predict_viability(screen)), np.asarray(b.predict_viability(screen))) for a, b in zip(h.thetas, g.thetas))
                rec.check(ok_, "C10/roundtrip/sample-type-changed", lambda: "a collection of %s.%s came back as %r (or predicts differently)" % (cls_.__module__, cls_.__name__, sorted(set(type(x).__module__ + "." + type(x).__name__ for x in g.thetas))), {"class": cls_.__module__})
        for ci in range(n_cases):
            kind = str(rng.choice(["sparse", "sparse", "interaction"]))
            kw = gen.realistic_screen_kwargs(rng, n_samples=(1, 4), n_drugs=(2, 5), n_rows=(3, 20), n_plates=(1, 3), observed="all", p_double_control=0.05)
            screen = Screen(**kw)
            sp = ExperimentSpace.from_screen(screen)
            nS, nT, D = sp.n_unique_samples, max(1, sp.n_unique_treatments), int(rng.integers(1, 4))
            lookup = None
            if kind == "interaction":
                if rng.random() < 0.3:
                    lookup = {}
                else:
                    lookup = {(c, -1): 1.0 for c in range(nS)}
                    for c in range(nS):
                        for m in range(nT):
                            lookup[(c, m)] = float(rng.uniform(0, 1.2))
            n_chains = int(rng.integers(1, 5))
            sizes = [int(rng.integers(10, 26)) if rng.random() < 0.5 else int(rng.integers(1, 10)) for _ in range(n_chains)]
            if ci == 1:
                sizes[0] = int(rng.choice([100, 256, 257, 300]))  # three-digit group names, beyond byte-sized counters
                rec.count("long_chains")
            adv = bool(rng.random() < 0.7)
            chains = []
            for c in range(n_chains):
                h = ThetaHolder(n_thetas=sizes[c])
                for s_ in range(sizes[c]):
                    h.add_theta(make_theta(rng, kind, nS, nT, D, tag=c * 1000 + s_ + 0.5, lookup=lookup, adv=adv))
                chains.append(h)
            w = {"kind": kind, "chains": sizes, "D": D, "adversarial": adv, "empty_lookup": lookup == {}}
            files = []
            loaded = []
            ok_all = True
            if rng.random() < 0.6 and not (kind == "interaction" and lookup == {}):
                # scoring / evaluation normally runs on the samples before they are written
                for h in chains:
                    for th_ in h.thetas[:: max(1, len(h.thetas) // 3)]:
                        try:
                            th_.predict_conditional_variance(screen)
                            th_.predict_conditional_mean(screen)
                            th_.predict_viability(screen)
                        except Exception:
                            pass
                rec.count("holders_used_before_save")
            for c, h in enumerate(chains):
                fn = os.path.join(tmp, "th_%d.h5" % c)  # same paths in every round: older chain files must be replaced
                rec.case(("roundtrip", kind, sizes[c], kit.digest([kit.digest(sorted((k, kit.array_hash(v) if isinstance(v, np.ndarray) else repr(v)) for k, v in t.private_parameters_dict().items() if not isinstance(v, dict))) for t in h.thetas])), nontrivial=sizes[c] >= 2)
                try:
                    h.save_h5(fn)
                    L = ThetaHolder.load_h5(fn)
                except Exception as e:
                    rec.violation("C10/roundtrip/raises", "save/load of a %s holder with %d samples raised %r\n%s" % (kind, sizes[c], e, kit.tb()), w)
                    ok_all = False
                    break
                files.append(fn)
                loaded.append(L)
                rec.count("roundtrips_checked")
                if sizes[c] >= 10:
                    rec.count("roundtrips_ge_10_samples")
                rec.check(len(L.thetas) == sizes[c] and int(L.n_thetas) == sizes[c] and bool(L.is_complete), "C10/roundtrip/count", lambda: "loaded %d samples (declared %r) of %d" % (len(L.thetas), L.n_thetas, sizes[c]), w)
                for s_, (a, b) in enumerate(zip(h.thetas, L.thetas)):
                    rec.count("samples_compared")
                    rec.check(type(a) is type(b), "C10/roundtrip/type", "sample type changed on load", w)
                    diff = same_params(a, b)
                    if not rec.check(diff is None, "C10/roundtrip/parameter-differs", lambda: "chain %d sample %d of %d: %s" % (c, s_, sizes[c], diff), w):
                        break
                    if kind == "interaction":
                        la, lb = a.single_effect_lookup, b.single_effect_lookup
                        rec.check({(int(k[0]), int(k[1])): float(v) for k, v in la.items()} == {(int(k[0]), int(k[1])): float(v) for k, v in lb.items()}, "C10/roundtrip/parameter-differs", "single-effect table differs after load", w)
                # reloaded samples predict identically
                if not (kind == "interaction" and lookup == {}):
                    try:
                        k_ = int(rng.integers(sizes[c]))
                        pa = h.thetas[k_].predict_viability(screen)
                        pb = L.thetas[k_].predict_viability(screen) if k_ < len(L.thetas) else None
                        rec.check(pb is not None and kit.bytes_equal(np.asarray(pa, dtype=float), np.asarray(pb, dtype=float)), "C10/roundtrip/prediction-differs", "reloaded sample %d predicts differently" % k_, w)
                    except Exception as e:
                        rec.did_not_return("predict", e)
            if not ok_all:
                continue
            # ---------------- a collection saved while only partly filled (a checkpoint of a running chain)
            if ci % 3 == 0:
                held = list(chains[0].thetas)
                declared = len(held) + int(rng.integers(1, 4))
                part = ThetaHolder(n_thetas=declared)
                for t_ in held:
                    part.add_theta(t_)
                fnp = os.path.join(tmp, "th_partial.h5")
                rec.case(("partial", kind, len(held), declared), nontrivial=len(held) >= 2)
                try:
                    part.save_h5(fnp)
                    Lp = ThetaHolder.load_h5(fnp)
                except Exception as e:
                    rec.violation("C10/roundtrip/raises", "save/load of a collection holding %d of %d declared samples raised %r" % (len(held), declared, e), w)
                else:
                    rec.count("partial_roundtrips_checked")
                    rec.check(len(Lp.thetas) == len(held) and all(t_ is not None for t_ in Lp.thetas) and int(Lp.n_thetas) == declared and not bool(Lp.is_complete), "C10/roundtrip/count", lambda: "a collection holding %d of %d declared samples came back with %d entries (%d of them empty), declared %r, complete=%r" % (len(held), declared, len(Lp.thetas), sum(1 for t_ in Lp.thetas if t_ is None), Lp.n_thetas, Lp.is_complete), w)
                    for s_, (a, b) in enumerate(zip(held, Lp.thetas)):
                        if b is None or same_params(a, b) is not None:
                            rec.violation("C10/roundtrip/parameter-differs", "partial collection: sample %d differs after load" % s_, w)
                            break
                    try:
                        Lp.get_theta(len(held))
                        rec.violation("C10/refusal/accepted", "get_theta(%d) of a reloaded collection that holds %d samples was accepted" % (len(held), len(held)), w)
                    except ValueError:
                        pass
                    except Exception as e:
                        rec.violation("C10/refusal/wrong-exception", "get_theta beyond the held samples raised %r instead of ValueError" % (e,), w)
            # ---------------- chain-major concatenation
            for src, what in ((chains, "in-memory"), (loaded, "loaded")):
                try:
                    cat = ThetaHolder.concat(list(src))
                except Exception as e:
                    rec.violation("C10/concat/raises", "concat of %s chains raised %r" % (what, e), w)
                    continue
                rec.case(("concat", what, kind, tuple(sizes)), nontrivial=n_chains >= 2)
                rec.count("concats_checked")
                if kind == "sparse":
                    tags = [float(t.alpha) for t in cat.thetas]
                else:
                    tags = [float((t.precision - 1.0) * 7.0) for t in cat.thetas]
                want = [c * 1000 + s_ + 0.5 for c in range(n_chains) for s_ in range(sizes[c])]
                rec.check(len(tags) == len(want) and np.allclose(tags, want, rtol=0, atol=1e-6), "C10/concat/not-chain-major", lambda: "concatenated order %r..., expected chain-major %r..." % (tags[:12], want[:12]), w)
                rec.check(int(cat.n_thetas) == sum(sizes) and bool(cat.is_complete), "C10/concat/size", "concatenated holder declares %r for %d samples" % (cat.n_thetas, sum(sizes)), w)
                # the input collections are left as they were (no growth beyond their declared size through aliasing)
                grown = [(c, len(h_.thetas), sizes[c]) for c, h_ in enumerate(src) if len(h_.thetas) != sizes[c] or int(h_.n_thetas) != sizes[c]]
                rec.check(not grown, "C10/concat/input-collection-changed", lambda: "after concat an input collection holds another number of samples than before: %r (chain, now, declared)" % (grown,), w)
                if grown:
                    for c, h_ in enumerate(src):
                        del h_.thetas[sizes[c]:]
                if n_chains >= 3:
                    # chain-major order for any bracketing of combine() over the chains in their order
                    parts = list(src)
                    while len(parts) > 1:
                        i_ = int(rng.integers(0, len(parts) - 1))
                        parts[i_ : i_ + 2] = [parts[i_].combine(parts[i_ + 1])]
                    rec.count("concats_by_random_bracketing")
                    rec.check(len(parts[0].thetas) == len(cat.thetas) and all(a is b for a, b in zip(parts[0].thetas, cat.thetas)) and int(parts[0].n_thetas) == sum(sizes), "C10/concat/not-chain-major", "a pairwise (tree-shaped) reduction of the chains with combine() does not give the chain-major collection", w)
                    for c, h_ in enumerate(src):
                        del h_.thetas[sizes[c]:]
                if n_chains >= 2:
                    cat2 = ThetaHolder.concat(list(src))
                    rec.check(len(cat2.thetas) == len(cat.thetas) and all(a is b for a, b in zip(cat2.thetas, cat.thetas)), "C10/concat/not-repeatable", lambda: "a second concat of the same collections gives %d samples, the first gave %d" % (len(cat2.thetas), len(cat.thetas)), w)
                    for c, h_ in enumerate(src):
                        del h_.thetas[sizes[c]:]
            # ---------------- evaluate_model CLI: column / chain-id alignment
            if ci % 4 == 0 and not (kind == "interaction" and lookup == {}):
                order = [int(x) for x in rng.permutation(n_chains)]
                f_s = os.path.join(tmp, "scr.h5")
                f_o = os.path.join(tmp, "me.h5")
                screen.save_h5(f_s)
                cli_files = [files[c] for c in order]
                if rng.random() < 0.4:
                    # one directory per chain, the same file name in each (chain_0/samples.h5, chain_1/samples.h5 ...)
                    import shutil as _sh

                    cli_files = []
                    for c in order:
                        d_ = os.path.join(tmp, "chain_%d" % c)
                        os.makedirs(d_, exist_ok=True)
                        _sh.copyfile(files[c], os.path.join(d_, "samples.h5"))
                        cli_files.append(os.path.join(d_, "samples.h5"))
                    rec.count("cli_runs_with_equal_file_names")
                try:
                    kit.run_cli(cli_eval.main, ["--screen", f_s, "--thetas"] + cli_files + ["--output", f_o])
                    me = ModelEvaluation.load_h5(f_o)
                except Exception as e:
                    if isinstance(e, ValueError) and "NaN predictions" in str(e) and adv:
                        # adversarial parameters (1e300 * -1e300 ...) make NaN means: a legitimate refusal
                        rec.did_not_return("evaluate_model:nan-predictions", e)
                    else:
                        rec.violation("C10/evaluate_model/raises", "evaluate_model raised %r\n%s" % (e, kit.tb()), w)
                else:
                    rec.case(("cli", kind, tuple(sizes), tuple(order)), nontrivial=n_chains >= 2)
                    rec.count("cli_runs")
                    cols = [(pos, c, s_) for pos, c in enumerate(order) for s_ in range(sizes[c])]
                    ww = dict(w, file_order=order)
                    ok = me.predictions.shape == (screen.size, len(cols)) and me.chain_ids.shape == (len(cols),)
                    rec.check(ok, "C10/evaluate_model/shape", "predictions %r chain_ids %r for %d samples" % (me.predictions.shape, me.chain_ids.shape, len(cols)), ww)
                    if ok:
                        bad = None
                        for col, (pos, c, s_) in enumerate(cols):
                            want_p = np.asarray(chains[c].thetas[s_].predict_viability(screen), dtype=float)
                            if not kit.bytes_equal(np.ascontiguousarray(me.predictions[:, col]), want_p):
                                bad = ("prediction", col, pos, c, s_)
                                break
                            if int(me.chain_ids[col]) != pos:
                                bad = ("chain id %d" % int(me.chain_ids[col]), col, pos, c, s_)
                                break
                        rec.check(bad is None, "C10/evaluate_model/column-chain-misaligned", lambda: "column %d should be step %d of the file passed at position %d (chain %d): wrong %s" % (bad[1], bad[4], bad[2], bad[3], bad[0]), ww)
                        rec.check(kit.bytes_equal(me.observations, screen.observations), "C10/evaluate_model/observations", "observations differ", ww)
            # ---------------- refusals
            h = chains[0]
            for what, f in (
                ("add_theta beyond the declared size", lambda: h.add_theta(h.thetas[0])),
                ("get_theta(-1)", lambda: h.get_theta(-1)),
                ("get_theta(len)", lambda: h.get_theta(len(h.thetas))),
                ("save_h5 of an empty holder", lambda: ThetaHolder(n_thetas=int(rng.integers(0, 4))).save_h5(os.path.join(tmp, "empty.h5"))),
            ):
                rec.case(("refusal", what), nontrivial=False)
                rec.count("refusals_checked")
                rec.count("oracle_evals")
                n_before = len(h.thetas)
                try:
                    f()
                    rec.violation("C10/refusal/accepted", "%s was accepted" % what, w)
                except ValueError:
                    pass
                except Exception as e:
                    rec.violation("C10/refusal/wrong-exception", "%s raised %r instead of ValueError" % (what, e), w)
                if len(h.thetas) != n_before:
                    rec.violation("C10/refusal/refused-operation-had-an-effect", "%s: the holder has %d samples after the refusal, %d before" % (what, len(h.thetas), n_before), w)
                    del h.thetas[n_before:]
            # a refused save leaves no trace: no new file, and a chain saved earlier under that name is still there
            if files:
                import hashlib

                victim = files[int(rng.integers(len(files)))]
                fresh = os.path.join(tmp, "never-written.h5")
                with open(victim, "rb") as fh:
                    before = hashlib.sha256(fh.read()).hexdigest()
                for target in (fresh, victim):
                    rec.count("refused_saves_checked")
                    try:
                        ThetaHolder(n_thetas=int(rng.integers(0, 4))).save_h5(target)
                    except Exception:
                        pass
                rec.check(not os.path.exists(fresh), "C10/refusal/refused-operation-had-an-effect", "the refused save of an empty collection left a file behind", w)
                if os.path.exists(fresh):
                    os.remove(fresh)
                with open(victim, "rb") as fh:
                    after = hashlib.sha256(fh.read()).hexdigest()
                rec.check(before == after, "C10/refusal/refused-operation-had-an-effect", "the refused save of an empty collection changed the chain file that was saved under that name before", w)
            rec.check(h.get_theta(0) is h.thetas[0] and h.get_theta(len(h.thetas) - 1) is h.thetas[-1], "C10/get_theta/in-range", "get_theta in range does not return the stored sample", w)
            if ci == 0 and shard == 0:
                rec.sample({"kind": kind, "chain_sizes": sizes, "D": D, "adversarial": adv, "first_tags": [float(t.precision) for t in chains[0].thetas[:4]]})
