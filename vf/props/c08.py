"""C08 - each Gibbs block draws from the exact full conditional of the documented model."""
import warnings

import numpy as np

from .. import kit, gen
from ..oracles import gibbs_conditionals as GC

PROP, NUM = "C08", 8
LEVEL = "exploration"
SHARDS = {"quick": 16, "thorough": 16}
TIMEOUT = {"quick": 1500, "thorough": 7200}
RULE = (
    "chains of 1-8 sampler steps on data sets built through the public path (Screen -> ExperimentSpace -> SparseDrugCombo -> "
    "add_observations -> step / sampling.sample): 1-5 samples, 1-8 treatments, D 1-4, 0-60 observations, combination and "
    "single-agent rows with the control in either column, treatments seen first / second / both, samples and treatments "
    "without data; histories include reset_model() between steps and observations added in two batches with steps in between. Every random draw is intercepted (generator proxy handed to set_rng, numpy.random.normal/gamma, "
    "sample_mvn_from_precision in the model's namespace) with the full sampler state before the draw, and its parameters "
    "are compared with a float64 re-derivation of the full conditional from the parameters alone; fitted values, bounds, "
    "block order and the exported sample are checked after every block / step; sample_mvn_from_precision is driven with "
    "an injected generator (0, unit vectors, random z) to reconstruct its affine map. A case is one draw; distinct = "
    "(block, rows of the element, positions present, had data, D); non-trivial = the element has data"
)
ASSUMPTIONS = [
    "default model options (fake intercept, local shrinkage, multiplicative gamma process)",
    "a drug paired with itself is excluded (no Gaussian full conditional exists for it)",
    "tolerances: conditional mean within 2e-3 posterior sd + 1e-4 relative (float32 sampler state; worst deviation seen is reported as max_dev_*), Q and rates relative 1e-3, rate stabiliser in [0, 1e-3]",
    "a failed Cholesky leaves the element unchanged; such events are counted and skipped",
]
REQUIRED = {"chains_whose_prior_state_predicts_beyond_10_when_the_data_arrive": {"quick": 3, "thorough": 60}, "chains_stepped_on_the_prior_before_the_first_data": {"quick": 40, "thorough": 800}, "models_copied_before_more_data_arrived": {"quick": 40, "thorough": 800}, "injected_failures_of_the_multivariate_draw": {"quick": 100, "thorough": 2000}, 
    "draws_checked": {"quick": 30000, "thorough": 600000},
    "draws_W0": {"quick": 500, "thorough": 10000}, "draws_V0": {"quick": 800, "thorough": 16000}, "draws_W": {"quick": 500, "thorough": 10000},
    "draws_V2": {"quick": 800, "thorough": 16000}, "draws_V1": {"quick": 800, "thorough": 16000}, "draws_gamma": {"quick": 4000, "thorough": 80000},
    "mu_checks": {"quick": 4000, "thorough": 80000}, "steps_checked": {"quick": 400, "thorough": 8000}, "exports_checked": {"quick": 400, "thorough": 8000},
    "mvn_affine_maps": {"quick": 100, "thorough": 2000}, "resets_between_steps": {"quick": 40, "thorough": 600}, "second_batches_added_between_steps": {"quick": 40, "thorough": 600},
}
N_CHAINS = {"quick": 800, "thorough": 12800}

ORDER = ["_reconstruct_Mu", "_alpha_step", "_W0_step", "_V0_step", "_W_step", "_V2_step", "_V1_step", "_prec_W0_step", "_prec_V0_step", "_prec_obs_step", "_prec_V2_step", "_prec_V1_step", "_prec_W_step"]
STATE = ["alpha", "W0", "V0", "W", "V1", "V2", "prec", "tau0", "tau", "phi0", "phi1", "phi2", "eta0", "eta1", "eta2", "gam", "Mu"]
MEAN_SD_TOL = 2e-3
REL = 1e-3


class Monitor:
    def __init__(self, rec, impl):
        self.rec = rec
        self.impl = impl
        self.events = []
        self.block = None
        self.blocks_this_step = []
        self.in_mvn = 0
        self.in_step = False

    def snapshot(self):
        m = self.impl
        return {k: (np.array(getattr(m, k), dtype=np.float64, copy=True) if isinstance(getattr(m, k), np.ndarray) else float(getattr(m, k))) for k in STATE}

    def data(self):
        m = self.impl
        return (np.array(m.y, dtype=np.float64), np.array(m.cline, dtype=int), np.array(m.dd1, dtype=int), np.array(m.dd2, dtype=int))

    def event(self, kind, args, ret, pre):
        if self.in_mvn and kind != "mvn":
            return
        self.events.append({"kind": kind, "args": args, "ret": ret, "pre": pre, "block": self.block})


class GenProxy:
    """recording proxy around the generator handed to the model"""

    def __init__(self, real, mon):
        self._real = real
        self._mon = mon

    def normal(self, loc=0.0, scale=1.0, size=None):
        pre = self._mon.snapshot() if not self._mon.in_mvn else None
        out = self._real.normal(loc, scale, size)
        self._mon.event("normal", {"loc": loc, "scale": scale, "size": size}, out, pre)
        return out

    def gamma(self, shape, scale=1.0, size=None):
        pre = self._mon.snapshot()
        out = self._real.gamma(shape, scale, size)
        self._mon.event("gamma", {"shape": shape, "scale": scale}, out, pre)
        return out

    def __getattr__(self, name):
        return getattr(self._real, name)


def changed_rows(a, b):
    a, b = np.asarray(a), np.asarray(b)
    if a.ndim == 1:
        return list(np.flatnonzero(a != b))
    return list(np.flatnonzero((a != b).any(axis=1)))


def rel_close(a, b, rel=REL, abs_=0.0):
    a, b = np.asarray(a, dtype=np.float64), np.asarray(b, dtype=np.float64)
    if a.shape != b.shape:
        try:
            a, b = np.broadcast_arrays(a, b)
        except ValueError:
            return False
    return bool(np.all(np.abs(a - b) <= abs_ + rel * np.abs(b)))


def check_gaussian_block(rec, mon, name, events, end_state, w):
    par = {"_W0_step": "W0", "_V0_step": "V0", "_W_step": "W", "_V2_step": "V2", "_V1_step": "V1"}[name]
    y, cline, dd1, dd2 = mon.data()
    a0 = mon.impl
    for k, ev in enumerate(events):
        nxt = events[k + 1]["pre"] if k + 1 < len(events) else end_state
        pre = ev["pre"]
        rows_ = changed_rows(pre[par], nxt[par])
        if len(rows_) == 0:
            rec.count("draws_without_update")
            continue
        if len(rows_) > 1:
            rec.check(False, "C08/%s/draw-updates-several-elements" % name, "one draw of %s changed elements %r" % (name, rows_), w)
            continue
        e = int(rows_[0])
        # other parameters must not change during a Gaussian draw
        others = [p for p in ("alpha", "W0", "V0", "W", "V1", "V2", "prec", "tau0", "tau", "phi0", "phi1", "phi2", "eta0", "eta1", "eta2") if p != par and not np.array_equal(pre[p], nxt[p])]
        rec.check(not others, "C08/%s/touches-other-blocks" % name, lambda: "a draw of %s also changed %r" % (name, others), w)
        rec.count("draws_checked")
        rec.count("draws_" + par)
        ww = dict(w, block=name, element=e)
        if par in ("W0", "V0"):
            mean, sd, N = (GC.cond_W0 if par == "W0" else GC.cond_V0)(pre, y, cline, dd1, dd2, e)
            i1 = int((dd1 == e).sum()) if par == "V0" else 0
            i2 = int((dd2 == e).sum()) if par == "V0" else 0
            rec.case((name, N, (i1 > 0, i2 > 0), N > 0), nontrivial=N > 0)
            if ev["kind"] != "normal":
                rec.check(False, "C08/%s/unexpected-draw-kind" % name, "scalar block drew %s" % ev["kind"], ww)
                continue
            loc, scale = float(np.asarray(ev["args"]["loc"])), float(np.asarray(ev["args"]["scale"]))
            dev = abs(loc - mean) / sd
            rec.maxi("max_dev_sd_" + par, dev)
            rec.check(rel_close(scale, sd), "C08/%s/wrong-conditional-sd" % name, lambda: "%s[%d] (%d rows): drawn with sd %r, full conditional has %r" % (par, e, N, scale, sd), ww)
            rec.check(dev <= MEAN_SD_TOL + 1e-4 * abs(mean) / sd, "C08/%s/wrong-conditional-mean" % name, lambda: "%s[%d] (%d rows): drawn with mean %r, full conditional mean %r (%.3g sd apart)" % (par, e, N, loc, mean, dev), ww)
            stored = float(nxt[par][e])
            rec.check(np.float32(np.asarray(ev["ret"])) == np.float32(stored), "C08/%s/stored-value-not-the-draw" % name, lambda: "%s[%d] stored %r, draw returned %r" % (par, e, stored, ev["ret"]), ww)
        else:
            b, Q, N = {"W": GC.cond_W, "V2": GC.cond_V2, "V1": GC.cond_V1}[par](pre, y, cline, dd1, dd2, e)
            D = Q.shape[0]
            if par == "W":
                pos = (N > 0,)
            else:
                pos = (bool((dd1 == e).any()), bool((dd2 == e).any()))
            rec.case((name, N, pos, N > 0, D), nontrivial=N > 0)
            if N == 0:
                if ev["kind"] == "normal":
                    rec.check(rel_close(np.asarray(ev["args"]["loc"]), 0.0, abs_=0.0) and rel_close(np.asarray(ev["args"]["scale"]), 1.0 / np.sqrt(np.diag(Q)), rel=1e-5), "C08/%s/wrong-prior-draw" % name, lambda: "%s[%d] has no data: drawn N(%r, %r^2), prior sd is %r" % (par, e, ev["args"]["loc"], ev["args"]["scale"], (1.0 / np.sqrt(np.diag(Q))).tolist()), ww)
                else:
                    Qc = np.asarray(ev["args"]["Q"], dtype=np.float64)
                    rec.check(rel_close(Qc, Q) and np.allclose(np.asarray(ev["args"]["mu_part"], dtype=np.float64), 0), "C08/%s/wrong-prior-draw" % name, "%s[%d] has no data but was not drawn from its prior" % (par, e), ww)
                continue
            if ev["kind"] != "mvn":
                rec.check(False, "C08/%s/unexpected-draw-kind" % name, "%s[%d] has %d rows of data but was drawn by %s" % (par, e, N, ev["kind"]), ww)
                continue
            Qc = np.asarray(ev["args"]["Q"], dtype=np.float64)
            bc = np.asarray(ev["args"]["mu_part"], dtype=np.float64) if ev["args"]["mu_part"] is not None else None
            okq = Qc.shape == Q.shape and bool(np.all(np.abs(Qc - Q) <= REL * (np.abs(Q) + np.sqrt(np.outer(np.diag(Q), np.diag(Q))))))
            rec.check(okq, "C08/%s/wrong-conditional-precision" % name, lambda: "%s[%d] (%d rows): precision matrix %r, full conditional has %r" % (par, e, N, Qc.tolist(), Q.tolist()), ww)
            if bc is None or not okq:
                rec.check(bc is not None, "C08/%s/no-linear-term" % name, "multivariate draw without mu_part", ww)
                continue
            try:
                m_ref = np.linalg.solve(Q, b)
                m_code = np.linalg.solve(Qc, bc)
            except np.linalg.LinAlgError:
                rec.count("singular_skipped")
                continue
            dlt = m_code - m_ref
            dev = float(np.sqrt(max(0.0, dlt @ Q @ dlt)))
            scale_m = float(np.sqrt(max(0.0, m_ref @ Q @ m_ref)))
            rec.maxi("max_dev_sd_" + par, dev)
            rec.check(dev <= MEAN_SD_TOL + 1e-4 * scale_m, "C08/%s/wrong-conditional-mean" % name, lambda: "%s[%d] (%d rows): conditional mean %r, full conditional mean %r (%.3g posterior sd apart)" % (par, e, N, m_code.tolist(), m_ref.tolist(), dev), ww)
            rec.check(bool(np.all(np.float32(np.asarray(ev["ret"])) == np.float32(nxt[par][e]))), "C08/%s/stored-value-not-the-draw" % name, "%s[%d] stored value is not the returned draw" % (par, e), ww)


def gamma_ok(rec, ev, shape_ref, rate_ref, key, what, ww):
    shape_c = np.asarray(ev["args"]["shape"], dtype=np.float64)
    with np.errstate(divide="ignore"):
        rate_c = 1.0 / np.asarray(ev["args"]["scale"], dtype=np.float64)
    shape_ref = np.asarray(shape_ref, dtype=np.float64)
    rate_ref = np.asarray(rate_ref, dtype=np.float64)
    rec.count("draws_checked")
    rec.count("draws_gamma")
    ok_s = rel_close(shape_c, shape_ref, rel=1e-9)
    rec.check(ok_s, key + "/wrong-shape", lambda: "%s: gamma shape %r, full conditional %r" % (what, shape_c.tolist(), shape_ref.tolist()), ww)
    try:
        rc, rr = np.broadcast_arrays(rate_c, rate_ref)
    except ValueError:
        rec.check(False, key + "/wrong-rate", "%s: rate array of shape %r, expected %r" % (what, rate_c.shape, rate_ref.shape), ww)
        return
    tol = REL * np.abs(rr) + 1e-9
    ok = bool(np.all((rc - rr >= -tol) & (rc - rr <= 1e-3 + tol)))
    if ok:
        rec.maxi("max_rel_dev_rate", float(np.max(np.minimum(np.abs(rc - rr), np.abs(rc - rr - 1e-3)) / np.abs(rr))))
    rec.check(ok, key + "/wrong-rate", lambda: "%s: gamma rate %r, full conditional %r (a stabiliser in [0,1e-3] is accepted)" % (what, rc.ravel()[:6].tolist(), rr.ravel()[:6].tolist()), ww)


def check_precision_block(rec, mon, name, events, end_state, w):
    impl = mon.impl
    y, cline, dd1, dd2 = mon.data()
    n = len(y)
    C = 1.0 / np.sqrt(1 + n)
    ww = dict(w, block=name)
    rec.case((name, n > 0, impl.D), nontrivial=n > 0)
    kinds = [e["kind"] for e in events]
    if name == "_prec_obs_step":
        if not rec.check(kinds == ["gamma"], "C08/%s/draw-sequence" % name, "draws %r" % kinds, ww):
            return
        sh, rt = GC.cond_prec_obs(events[0]["pre"], y, cline, dd1, dd2, impl.a0, impl.b0)
        if n == 0:
            sh_c, rt_c = float(events[0]["args"]["shape"]), 1.0 / float(events[0]["args"]["scale"])
            rec.count("draws_checked")
            rec.count("draws_gamma")
            rec.check(rel_close(sh_c, sh, 1e-9) and rel_close(rt_c, rt, 1e-9), "C08/%s/wrong-prior-draw" % name, "no data: prec drawn Ga(%r, %r), prior is Ga(%r, %r)" % (sh_c, rt_c, sh, rt), ww)
        else:
            gamma_ok(rec, events[0], sh, rt, "C08/" + name, "prec", ww)
            rec.check(C - 1e-12 <= end_state["prec"] <= 1e6, "C08/%s/out-of-bounds" % name, "prec %r outside [%r, 1e6]" % (end_state["prec"], C), ww)
            rec.check(rel_close(end_state["prec"], np.clip(float(events[0]["ret"]), C, 1e6), 1e-6), "C08/%s/stored-value-not-the-draw" % name, "prec %r, draw %r" % (end_state["prec"], events[0]["ret"]), ww)
    elif name == "_prec_W0_step":
        if not rec.check(kinds == ["gamma"], "C08/%s/draw-sequence" % name, "draws %r" % kinds, ww):
            return
        sh, rt = GC.cond_tau0(events[0]["pre"], impl.n_clines, impl.a0, impl.b0)
        gamma_ok(rec, events[0], sh, rt, "C08/" + name, "tau0", ww)
        rec.check(C - 1e-12 <= end_state["tau0"] <= 1e6, "C08/%s/out-of-bounds" % name, "tau0 %r outside [%r, 1e6]" % (end_state["tau0"], C), ww)
        rec.check(rel_close(end_state["tau0"], np.clip(float(events[0]["ret"]), C, 1e6), 1e-6), "C08/%s/stored-value-not-the-draw" % name, "tau0 %r, draw %r" % (end_state["tau0"], events[0]["ret"]), ww)
    elif name in ("_prec_V0_step", "_prec_V1_step", "_prec_V2_step"):
        sfx = name[7]
        phi, eta, V = "phi" + sfx, "eta" + sfx, "V" + sfx
        if not rec.check(kinds == ["gamma"] * 4, "C08/%s/draw-sequence" % name, "draws %r (expected auxiliary and main draw for phi and eta)" % kinds, ww):
            return
        e_aux_phi, e_phi, e_aux_eta, e_eta = events
        sh, rt = GC.cond_phi_aux(e_aux_phi["pre"][phi])
        gamma_ok(rec, e_aux_phi, sh, rt, "C08/%s/phi-aux" % name, "auxiliary of " + phi, ww)
        sh, rt = GC.cond_phi(np.asarray(e_aux_phi["ret"]), e_phi["pre"][eta], e_phi["pre"][V])
        gamma_ok(rec, e_phi, sh, rt, "C08/%s/phi" % name, phi, ww)
        N1 = np.array([int((dd1 == m).sum()) for m in range(impl.n_drugdoses)])
        N2 = np.array([int((dd2 == m).sum()) for m in range(impl.n_drugdoses)])
        Cphi = 1.0 / np.sqrt(1.0 + N1 + N2)
        lo = Cphi if sfx == "0" else Cphi[:, None]
        phi_end = np.asarray(end_state[phi])
        rec.check(bool(np.all(phi_end >= lo * (1 - 1e-6)) and np.all(phi_end <= 1e6 * (1 + 1e-6))), "C08/%s/out-of-bounds" % name, lambda: "%s outside [1/sqrt(1+N1+N2), 1e6]: min %r max %r" % (phi, float(phi_end.min()), float(phi_end.max())), ww)
        rec.check(rel_close(phi_end, np.clip(np.asarray(e_phi["ret"], dtype=np.float64), lo, 1e6), 1e-5), "C08/%s/stored-value-not-the-draw" % name, "%s is not the clipped draw" % phi, ww)
        # eta is updated given the NEW phi
        rec.check(np.array_equal(e_aux_eta["pre"][phi], phi_end), "C08/%s/eta-not-conditioned-on-new-phi" % name, "%s changed after the eta draws began" % phi, ww)
        sh, rt = GC.cond_eta_aux(e_aux_eta["pre"][eta])
        gamma_ok(rec, e_aux_eta, sh, rt, "C08/%s/eta-aux" % name, "auxiliary of " + eta, ww)
        sh, rt = GC.cond_eta(np.asarray(e_aux_eta["ret"]), e_eta["pre"][phi], e_eta["pre"][V], impl.n_drugdoses)
        gamma_ok(rec, e_eta, sh, rt, "C08/%s/eta" % name, eta, ww)
        eta_end = np.asarray(end_state[eta])
        rec.check(bool(np.all(eta_end >= C * (1 - 1e-6)) and np.all(eta_end <= 1e6 * (1 + 1e-6))), "C08/%s/out-of-bounds" % name, lambda: "%s outside [%r, 1e6]: %r" % (eta, C, eta_end.tolist()), ww)
        rec.check(rel_close(eta_end, np.clip(np.asarray(e_eta["ret"], dtype=np.float64), C, 1e6), 1e-5), "C08/%s/stored-value-not-the-draw" % name, "%s is not the clipped draw" % eta, ww)
    elif name == "_prec_W_step":
        D = impl.D
        if not rec.check(kinds == ["gamma"] * D, "C08/%s/draw-sequence" % name, "draws %r for D=%d" % (kinds, D), ww):
            return
        for d, ev in enumerate(events):
            sh, rt = GC.cond_gam(ev["pre"], ev["pre"]["gam"], d, impl.n_clines, D)
            gamma_ok(rec, ev, sh, rt, "C08/%s/gam" % name, "gam[%d]" % d, dict(ww, d=d))
            nxt = events[d + 1]["pre"] if d + 1 < D else end_state
            rec.check(np.float32(nxt["gam"][d]) == np.float32(np.asarray(ev["ret"])), "C08/%s/stored-value-not-the-draw" % name, "gam[%d] %r, draw %r" % (d, nxt["gam"][d], ev["ret"]), ww)
        tau_end = np.asarray(end_state["tau"])
        rec.check(bool(np.all(tau_end >= C * (1 - 1e-6)) and np.all(tau_end <= 1e6 * (1 + 1e-6))), "C08/%s/out-of-bounds" % name, lambda: "tau outside [%r, 1e6]: %r" % (C, tau_end.tolist()), ww)
        rec.check(rel_close(tau_end, np.clip(np.cumprod(np.asarray(end_state["gam"], dtype=np.float64)), C, 1e6), 1e-4), "C08/%s/tau-not-cumprod" % name, lambda: "tau %r is not the clipped cumulative product of gam %r" % (tau_end.tolist(), np.asarray(end_state["gam"]).tolist()), ww)


def install(rec, P, model, real_rng, fail_prob=0.0, fail_rng=None):
    """attach the monitor to one SparseDrugCombo instance"""
    import numpy.random as npr
    from batchie.models import sparse_combo as SC

    impl = model.wrapped_model
    mon = Monitor(rec, impl)
    proxy = GenProxy(real_rng, mon)
    w = {}

    def mk_block(name):
        orig = getattr(type(impl), name)

        def wrapped(*a, **k):
            if mon.block is not None or not mon.in_step:
                return orig(impl, *a, **k)
            mon.block = name
            mon.events = []
            mon.blocks_this_step.append(name)
            alpha_before = impl.alpha
            try:
                return orig(impl, *a, **k)
            finally:
                end = mon.snapshot()
                evs = mon.events
                mon.block = None
                try:
                    after_block(name, evs, end, alpha_before)
                except Exception as e:
                    rec.count("monitor_errors")
                    rec.notes.append("monitor error in %s: %r %s" % (name, e, kit.tb()[-400:]))

        return wrapped

    def after_block(name, evs, end, alpha_before):
        y, cline, dd1, dd2 = mon.data()
        ww = dict(mon_w, block=name)
        if name in ("_W0_step", "_V0_step", "_W_step", "_V2_step", "_V1_step"):
            expect = impl.n_clines if name in ("_W0_step", "_W_step") else impl.n_drugdoses
            rec.check(len(evs) == expect, "C08/%s/draw-count" % name, lambda: "%d draws for %d elements" % (len(evs), expect), ww)
            check_gaussian_block(rec, mon, name, evs, end, ww)
        elif name.startswith("_prec"):
            check_precision_block(rec, mon, name, evs, end, ww)
        elif name == "_alpha_step":
            rec.check(len(evs) == 0, "C08/_alpha_step/draws", "the fake intercept drew %d random values" % len(evs), ww)
            if len(y):
                rec.check(abs(end["alpha"] - float(np.mean(y))) <= 1e-5 * (1 + abs(float(np.mean(y)))), "C08/_alpha_step/not-the-mean", lambda: "alpha %r, mean of the transformed observations %r" % (end["alpha"], float(np.mean(y))), ww)
        if name != "_alpha_step" and len(y):
            # alpha is held through the rest of the sweep
            rec.check(end["alpha"] == alpha_before, "C08/alpha/changed-outside-alpha-step", "alpha changed in %s" % name, ww)
        # fitted values equal those implied by the current parameters
        if len(y):
            ref = GC.mu(end, cline, dd1, dd2)
            Mu = np.asarray(end["Mu"])
            rec.count("mu_checks")
            ok = Mu.shape == ref.shape
            if ok:
                scale = 1.0 + np.abs(ref) + mag_terms(end, cline, dd1, dd2)
                dev = float(np.max(np.abs(Mu - ref) / scale))
                rec.maxi("max_dev_Mu", dev)
                ok = dev <= 2e-4
            rec.check(ok, "C08/%s/fitted-values-stale" % name, lambda: "after %s the running fitted values differ from those implied by the parameters (max scaled deviation %r)" % (name, float(np.max(np.abs(Mu - ref))) if Mu.shape == ref.shape else "shape"), ww)

    mon_w = w
    for name in ORDER:
        P.set(impl, name, mk_block(name))

    def mk_step(orig):
        def mcmc_step():
            mon.in_step = True
            mon.blocks_this_step = []
            try:
                return orig(impl)
            finally:
                mon.in_step = False
                rec.count("steps_checked")
                rec.check(mon.blocks_this_step == ORDER, "C08/sweep/blocks-not-once-in-documented-order", lambda: "blocks visited %r, documented sweep %r" % (mon.blocks_this_step, ORDER), mon_w)

        return mcmc_step

    P.set(impl, "mcmc_step", mk_step(type(impl).mcmc_step))

    # draws through the model's generator ...
    model.set_rng(proxy)
    # ... through the global numpy functions (if the draws are ever moved back there) ...
    def mk_global(kind, orig):
        def f(*a, **k):
            if mon.block is None:
                return orig(*a, **k)
            pre = mon.snapshot()
            out = orig(*a, **k)
            names = ("loc", "scale", "size") if kind == "normal" else ("shape", "scale", "size")
            args = dict(zip(names, a))
            args.update(k)
            args.setdefault("loc" if kind == "normal" else "shape", 0.0)
            args.setdefault("scale", 1.0)
            mon.event(kind, args, out, pre)
            return out

        return f

    P.set(npr, "normal", mk_global("normal", npr.normal))
    P.set(npr, "gamma", mk_global("gamma", npr.gamma))

    # ... and through the multivariate normal helper bound in the model's namespace
    def mk_mvn(orig):
        def f(Q, mu=None, mu_part=None, chol_factor=False, rng=None):
            if mon.block is None:
                return orig(Q, mu=mu, mu_part=mu_part, chol_factor=chol_factor, rng=rng)
            pre = mon.snapshot()
            if fail_prob and fail_rng.random() < fail_prob:
                # the numeric failure the three embedding blocks are written to survive ("Numeric instability in
                # Gibbs ...-step"): the element keeps its value and everything else must stay consistent with it
                mon.event("mvn-failed", {"Q": np.array(Q, dtype=np.float64)}, None, pre)
                rec.count("injected_failures_of_the_multivariate_draw")
                raise np.linalg.LinAlgError("injected: matrix is not positive definite")
            mon.in_mvn += 1
            try:
                out = orig(Q, mu=mu, mu_part=mu_part, chol_factor=chol_factor, rng=rng)
            finally:
                mon.in_mvn -= 1
            mon.event("mvn", {"Q": np.array(Q, dtype=np.float64), "mu_part": None if mu_part is None else np.array(mu_part, dtype=np.float64), "mu": mu, "chol_factor": chol_factor, "rng_is_models": rng is proxy}, np.array(out, dtype=np.float64), pre)
            return out

        return f

    P.wrap(SC, "sample_mvn_from_precision", mk_mvn)
    return mon, w


def mag_terms(st, cline, dd1, dd2):
    W = np.abs(st["W"][cline])
    return np.abs(st["W0"][cline]) + np.abs(GC.zc(st["V0"], dd1)) + np.abs(GC.zc(st["V0"], dd2)) + np.sum(W * (np.abs(GC.zc(st["V1"], dd1)) + np.abs(GC.zc(st["V1"], dd2))), axis=-1) + np.sum(W * np.abs(GC.zc(st["V2"], dd1) * GC.zc(st["V2"], dd2)), axis=-1)


def gen_dataset(rng):
    """partially observed screen through the public path; the model is sized by the whole screen"""
    nS, nD = int(rng.integers(1, 6)), int(rng.integers(2, 6))
    kw = gen.realistic_screen_kwargs(rng, n_samples=(nS, nS), n_drugs=(nD, nD), n_doses=(1, 2), n_rows=(2, 70), n_plates=(2, 6), p_single=float(rng.choice([0.0, 0.25, 0.5])), p_dup=0.15, p_double_control=float(rng.choice([0.0, 0.05])), observed=str(rng.choice(["some", "random", "all", "none"], p=[0.5, 0.25, 0.15, 0.1])))
    obs = kw["observations"]
    # a few values outside the clip bounds
    for _ in range(int(rng.integers(0, 3))):
        obs[int(rng.integers(len(obs)))] = float(rng.choice([0.0, 0.003, 0.999, 1.0]))
    return kw


def run_shard(rec, tier, seed, shard, nshards):
    from batchie.data import Screen, ExperimentSpace
    from batchie.models.sparse_combo import SparseDrugCombo
    from batchie import sampling
    from batchie.core import ThetaHolder

    warnings.filterwarnings("ignore")
    rng = kit.rng_for(seed, NUM, shard)
    n_chains = N_CHAINS[tier] // nshards
    for ci in range(n_chains):
        kw = gen_dataset(rng)
        screen = Screen(**kw)
        D = int(rng.integers(1, 5))
        if ExperimentSpace.from_screen(screen).n_unique_treatments == 0:
            # every row is a double control: an experiment space without treatments is outside the quantifier
            rec.count("skipped_no_treatments")
            continue
        sub = screen.subset_observed()
        n_steps = int(rng.integers(1, 9))
        tids = np.asarray(screen.treatment_ids)
        w_info = {"rows": int(screen.size), "observed_rows": int(sub.size) if sub is not None else 0, "D": D, "n_samples": int(ExperimentSpace.from_screen(screen).n_unique_samples), "n_treatments": int(ExperimentSpace.from_screen(screen).n_unique_treatments), "steps": n_steps}
        with kit.Patches() as P:
            later = None
            try:
                model = SparseDrugCombo(experiment_space=ExperimentSpace.from_screen(screen), n_embedding_dimensions=D)
                if sub is not None and rng.random() < 0.35:
                    # the sampler has been running on the prior for a while (a model created and stepped before the first
                    # results arrived): its state is a draw from the prior - embeddings and effects of any size - when
                    # the data come in
                    model.set_rng(np.random.default_rng(int(rng.integers(0, 2**31))))
                    # (half of these chains are steered: the data arrive at the moment the prior state predicts a value
                    # beyond +-10 logits for some training row - far outside anything a viability can be)
                    steer_ = bool(rng.random() < 0.7)
                    extreme_ = False
                    for _ in range(int(rng.integers(20, 160)) if not steer_ else 600):
                        model.step()
                        if steer_:
                            mu0_ = np.asarray(model.get_model_state().predict_conditional_mean(sub), dtype=float)
                            if np.any(np.abs(mu0_) > 10):
                                extreme_ = True
                                break
                    rec.count("chains_stepped_on_the_prior_before_the_first_data")
                    if extreme_:
                        rec.count("chains_whose_prior_state_predicts_beyond_10_when_the_data_arrive")
                if sub is not None:
                    if sub.size >= 2 and rng.random() < 0.35:
                        # the observations arrive in two batches, the second one after some sampler steps
                        first = rng.random(sub.size) < 0.5
                        if first.any() and not first.all():
                            model.add_observations(sub.subset(first))
                            later = sub.subset(~first)
                    if later is None:
                        model.add_observations(sub)
            except Exception as e:
                rec.did_not_return("build-model", e)
                continue
            if later is not None and rng.random() < 0.5:
                # a copy of the model (copy.deepcopy, as a caller does before trying something out) is a model of its
                # own: what the copy is given later is its data, and the original keeps exactly what it had
                import copy

                try:
                    twin = copy.deepcopy(model)
                    n0, rows0 = int(model.n_obs()), (len(model.wrapped_model.y), len(model.wrapped_model.cline))
                    twin.add_observations(later)
                    rec.count("models_copied_before_more_data_arrived")
                    rec.count("oracle_evals")
                    same_ = int(model.n_obs()) == n0 and (len(model.wrapped_model.y), len(model.wrapped_model.cline)) == rows0
                    rec.check(same_, "C08/copy/shares-data-with-the-original", lambda: "after add_observations on a deep copy the ORIGINAL holds %d observations (%d rows in its value list), %d before" % (int(model.n_obs()), len(model.wrapped_model.y), n0), w_info)
                    rec.check(int(twin.n_obs()) == n0 + int(later.size), "C08/copy/shares-data-with-the-original", lambda: "the copy holds %d observations after it was given %d more than the %d it started with" % (int(twin.n_obs()), int(later.size), n0), w_info)
                    twin.set_rng(np.random.default_rng(0))
                    twin.step()
                except Exception as e:
                    rec.violation("C08/step/raises", "a deep copy of the model that was given more data raised %r" % (e,), w_info)
            faulty = bool(ci % 4 == 3)
            if faulty:
                rec.count("chains_with_injected_draw_failures")
            mon, w = install(rec, P, model, np.random.default_rng(int(rng.integers(0, 2**31))), fail_prob=0.15 if faulty else 0.0, fail_rng=np.random.default_rng(int(rng.integers(0, 2**31))))
            w.update(w_info)
            impl = model.wrapped_model
            via_sampling = bool(rng.random() < 0.3)
            try:
                export_sub = sub
                if via_sampling and later is not None:
                    model.add_observations(later)  # two batches, no step in between
                    later = None
                    export_sub = None  # training rows are now ordered first batch, second batch
                if via_sampling:
                    # sampling.sample calls set_rng itself: capture it and keep the proxy in place
                    orig_set = model.set_rng

                    def set_rng(r, _o=orig_set, _mon=mon):
                        _o(GenProxy(r, _mon))

                    model.set_rng = set_rng
                    holder = sampling.sample(model, ThetaHolder(n_thetas=max(1, n_steps // 2)), seed=int(rng.integers(0, 1000)), n_chains=1, chain_index=0, n_burnin=n_steps % 2, thin=2 if n_steps > 1 else 1)
                    thetas = holder.thetas[-1:]
                else:
                    thetas = []
                    seen_sub = sub if later is None else None
                    for s_ in range(n_steps):
                        if later is not None and s_ == (n_steps // 2):
                            model.add_observations(later)
                            later = None
                            seen_sub = None  # row order of the training data is now first batch + second batch
                            rec.count("second_batches_added_between_steps")
                        elif s_ and rng.random() < 0.12:
                            model.reset_model()
                            rec.count("resets_between_steps")
                        model.step()
                        thetas = [model.get_model_state()]
                        check_export(rec, model, impl, seen_sub, thetas[0], w)
                if via_sampling and thetas:
                    check_export(rec, model, impl, export_sub, thetas[0], w)
            except Exception as e:
                rec.violation("C08/step/raises", "sampler step raised %r\n%s" % (e, kit.tb()), w)
            rec.count("chains_run")
        if ci == 0 and shard == 0:
            rec.sample(dict(w_info, blocks=ORDER, note="every draw of every block in every step was compared with the re-derived full conditional"))

    mvn_affine(rec, tier, rng)


def check_export(rec, model, impl, sub, theta, w):
    rec.count("exports_checked")
    rec.check(float(theta.precision) == float(impl.prec), "C08/export/precision-differs", lambda: "exported precision %r, sampler's %r" % (theta.precision, impl.prec), w)
    if sub is not None and sub.size:
        pm = np.asarray(theta.predict_conditional_mean(sub), dtype=np.float64)
        Mu = np.asarray(impl.Mu, dtype=np.float64)
        ok = pm.shape == Mu.shape and bool(np.all(np.abs(pm - Mu) <= 2e-4 * (1 + np.abs(Mu) + mag_from_theta(theta, sub))))
        rec.check(ok, "C08/export/does-not-reproduce-fitted-values", lambda: "exported sample predicts %r on the training experiments, the sampler's fitted values are %r" % (pm[:4].tolist(), Mu[:4].tolist()), w)
        var = np.asarray(theta.predict_conditional_variance(sub))
        rec.check(bool(np.all(var == 1.0 / float(impl.prec))), "C08/export/variance-not-reciprocal-precision", "exported variance differs from 1/prec", w)


def mag_from_theta(theta, sub):
    s, t = np.asarray(sub.sample_ids), np.asarray(sub.treatment_ids)
    st = {"W": theta.W, "W0": theta.W0, "V0": theta.V0, "V1": theta.V1, "V2": theta.V2}
    return mag_terms(st, s, t[:, 0], t[:, 1])


class ScriptedGen:
    """generator whose normal(size) returns prescribed vectors"""

    def __init__(self, z):
        self.z = z

    def normal(self, loc=0.0, scale=1.0, size=None):
        n = size if isinstance(size, int) else (size[0] if size else len(self.z))
        assert n == len(self.z)
        return np.array(self.z, dtype=np.float64) * scale + loc


def mvn_affine(rec, tier, rng):
    from batchie import fast_mvn

    n = {"quick": 12, "thorough": 160}[tier]
    for i in range(n):
        D = int(rng.integers(1, 7))
        A0 = rng.normal(size=(D, D))
        evals = np.exp(rng.uniform(0, np.log(float(rng.choice([10.0, 1e4, 1e8]))), size=D))
        Qm, _ = np.linalg.qr(A0)
        Q = (Qm * evals) @ Qm.T
        Q = (Q + Q.T) / 2
        cond = float(evals.max() / evals.min())
        mode = str(rng.choice(["mu_part", "mu", "neither", "chol"]))
        b = rng.normal(size=D) * float(rng.choice([0.1, 1.0, 100.0]))
        kw = {}
        if mode == "mu_part":
            kw["mu_part"] = b
            m_ref = np.linalg.solve(Q, b)
        elif mode == "mu":
            kw["mu"] = b
            m_ref = b
        elif mode == "chol":
            kw["mu_part"] = b
            kw["chol_factor"] = True
            m_ref = np.linalg.solve(Q, b)
        else:
            m_ref = np.zeros(D)
        Qarg = np.linalg.cholesky(Q) if mode == "chol" else Q
        w = {"D": D, "cond": cond, "mode": mode}
        rec.case(("mvn", D, mode, round(np.log10(cond))), nontrivial=D >= 2)
        try:
            x0 = fast_mvn.sample_mvn_from_precision(Qarg.copy(), rng=ScriptedGen(np.zeros(D)), **kw)
            A = np.stack([fast_mvn.sample_mvn_from_precision(Qarg.copy(), rng=ScriptedGen(np.eye(D)[k]), **kw) - x0 for k in range(D)], axis=1)
            z = rng.normal(size=D)
            xz = fast_mvn.sample_mvn_from_precision(Qarg.copy(), rng=ScriptedGen(z), **kw)
        except Exception as e:
            rec.violation("C08/mvn/raises", "sample_mvn_from_precision raised %r (%s)" % (e, mode), w)
            continue
        rec.count("mvn_affine_maps")
        tol = 1e-9 * cond
        rec.check(bool(np.all(np.abs(x0 - m_ref) <= tol * (1 + np.abs(m_ref)))), "C08/mvn/wrong-mean", lambda: "mean %r, expected Q^-1 b = %r (%s)" % (x0.tolist(), m_ref.tolist(), mode), w)
        cov_err = float(np.max(np.abs(A @ A.T @ Q - np.eye(D))))
        rec.maxi("max_mvn_cov_err", cov_err / cond)
        rec.check(cov_err <= 1e-9 * cond * D, "C08/mvn/wrong-covariance", lambda: "A A^T Q differs from I by %r (cond %r, %s)" % (cov_err, cond, mode), w)
        rec.check(bool(np.all(np.abs(xz - (x0 + A @ z)) <= tol * (1 + np.abs(xz)))), "C08/mvn/not-affine-in-z", "the draw is not m + A z", w)
        if i == 0:
            rec.sample({"kind": "mvn-affine-map", "D": D, "mode": mode, "cond": cond, "mean": x0.tolist()})
    if tier == "thorough":
        from scipy import stats

        for _ in range(2):
            D = int(rng.integers(1, 5))
            A0 = rng.normal(size=(D, D))
            Q = A0 @ A0.T + np.eye(D)
            b = rng.normal(size=D)
            g = np.random.default_rng(int(rng.integers(0, 2**31)))
            m = np.linalg.solve(Q, b)
            xs = np.array([fast_mvn.sample_mvn_from_precision(Q, mu_part=b, rng=g) for _i in range(20000)])
            d2 = np.einsum("ni,ij,nj->n", xs - m, Q, xs - m)
            p = stats.kstest(d2, "chi2", args=(D,)).pvalue
            rec.count("mvn_frequency_checks")
            rec.check(p >= 1e-6, "C08/mvn/frequency-cross-check", "Mahalanobis distances of 20000 draws reject chi2_%d (KS p=%r)" % (D, p), {"D": D})
