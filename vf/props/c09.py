"""C09 - predictions are pure, row-wise, treatment-order-symmetric and control-neutral."""
import math
import os

import numpy as np

from .. import kit, gen

PROP, NUM = "C09", 9
LEVEL = "exploration"
SHARDS = {"quick": 8, "thorough": 16}
TIMEOUT = {"quick": 900, "thorough": 5400}
RULE = (
    "random parameters for both shipped MCMC sample types (scales 1e-3..1e3 so the clip saturates on both sides; the last "
    "embedding row, which index -1 aliases, non-zero), screens of arity 1 and 2 with the control in either or both "
    "columns, random subsets (empty, full, overlapping), column swaps and single-agent twins rebuilt with the same "
    "mappings, row permutations, plus screens of 4095-9001 rows checked against a vectorised reference; a scalar reference recomputes every mean; a purity monitor hashes theta and screen "
    "before/after each predict_* call; predict_*_all/_avg compared with per-sample predictions. A case is one (theta, "
    "screen); distinct = hash of both; non-trivial = the screen holds a control in some column and >=2 rows"
)
ASSUMPTIONS = ["the interaction sample type links through exp and the Bliss baseline: its viability is checked against its own documented formula and its mean must be 0 whenever a control is present"]
REQUIRED = {"helper_runs_on_memoising_sample_types": {"quick": 40, "thorough": 1000}, "predictions_after_the_single_effects_were_updated_in_place": {"quick": 100, "thorough": 2500}, "whole_library_predictions": {"quick": 2, "thorough": 6}, "integer_typed_precisions": {"quick": 80, "thorough": 2000}, "partial_holder_helper_calls": {"quick": 200, "thorough": 3000}, "theta_screen_pairs": {"quick": 1500, "thorough": 40000}, "purity_checks": {"quick": 6000, "thorough": 150000}, "control_neutrality_rows": {"quick": 3000, "thorough": 80000}, "helper_checks": {"quick": 200, "thorough": 5000}, "large_screens": {"quick": 8, "thorough": 60}}
N_PAIRS = {"quick": 4000, "thorough": 64000}


def theta_arrays(th):
    out = []
    for k in sorted(vars(th)):
        v = getattr(th, k)
        if isinstance(v, np.ndarray):
            out.append((k, kit.array_hash(v)))
        elif isinstance(v, dict):
            out.append((k, kit.digest(sorted((tuple(map(float, kk)) if isinstance(kk, tuple) else kk, float(vv)) for kk, vv in v.items()))))
        else:
            out.append((k, repr(v)))
    return out


def screen_arrays(data):
    scr = data.screen if hasattr(data, "screen") else data
    out = [kit.array_hash(getattr(scr, a)) for a in ("treatment_ids", "sample_ids", "plate_ids", "observations", "observation_mask", "treatment_doses")]
    out += [kit.array_hash(scr.treatment_names), kit.array_hash(scr.sample_names), kit.array_hash(scr.plate_names)]
    if hasattr(data, "selection_vector"):
        out.append(kit.array_hash(np.asarray(data.selection_vector)))
    return out


def install_purity_monitor(rec, P):
    from batchie.models.sparse_combo import SparseDrugComboMCMCSample
    from batchie.models.sparse_combo_interaction import SparseDrugComboInteractionMCMCSample

    def mk(name):
        def outer(orig):
            def wrapped(self, data):
                b_t, b_s = theta_arrays(self), screen_arrays(data)
                res = orig(self, data)
                rec.count("purity_checks")
                rec.check(theta_arrays(self) == b_t, "C09/purity/sample-mutated", "%s.%s mutated the posterior sample" % (type(self).__name__, name), None)
                rec.check(screen_arrays(data) == b_s, "C09/purity/screen-mutated", "%s.%s mutated the screen" % (type(self).__name__, name), None)
                return res

            return wrapped

        return outer

    for cls in (SparseDrugComboMCMCSample, SparseDrugComboInteractionMCMCSample):
        for m in ("predict_viability", "predict_conditional_mean", "predict_conditional_variance"):
            P.wrap(cls, m, mk(m))


def ref_mean_sparse(th, sid, tids):
    """scalar reference: depends on the sample and the unordered set of non-control treatments"""
    nc = [int(t) for t in tids if int(t) != -1]
    parts = [float(th.alpha), float(th.W0[sid])]
    for t in nc:
        parts.append(float(th.V0[t]))
    D = th.W.shape[1]
    for dd in range(D):
        w = float(th.W[sid, dd])
        for t in nc:
            parts.append(w * float(th.V1[t, dd]))
        if len(tids) == 2 and len(nc) == 2:
            parts.append(w * float(th.V2[nc[0], dd]) * float(th.V2[nc[1], dd]))
    return math.fsum(parts), math.fsum(abs(p) for p in parts)


def expit(x):
    if x >= 0:
        return 1.0 / (1.0 + math.exp(-x))
    e = math.exp(x)
    return e / (1.0 + e)


def run_shard(rec, tier, seed, shard, nshards):
    from batchie.data import Screen, ExperimentSpace
    from batchie.core import ThetaHolder
    from batchie.models import main as MM

    rng = kit.rng_for(seed, NUM, shard)
    n_pairs = N_PAIRS[tier] // nshards
    P = kit.Patches()
    install_purity_monitor(rec, P)
    try:
        for pi in range(n_pairs):
            arity = int(rng.choice([1, 2, 2, 2]))
            kw = gen.realistic_screen_kwargs(rng, n_samples=(1, 4), n_drugs=(2, 5), n_rows=(1, 24), n_plates=(1, 3), p_single=0.35, p_double_control=0.1 if arity == 2 else 0.0, arity=arity, control=str(rng.choice(["", "DMSO"])))
            if arity == 1:
                # some control rows in the single column
                td = kw["treatment_doses"]
                for i in range(len(td)):
                    if rng.random() < 0.2:
                        td[i, 0] = 0.0
            screen = Screen(**kw)
            sp = ExperimentSpace.from_screen(screen)
            nS, nT = sp.n_unique_samples, max(1, sp.n_unique_treatments)
            kind = "sparse" if arity == 1 or rng.random() < 0.6 else "interaction"
            th = gen.random_sparse_combo_theta(rng, nS, nT) if kind == "sparse" else gen.random_interaction_theta(rng, nS, nT)
            if rng.random() < 0.12:
                # a precision is a number: a whole-number value may arrive as a Python int, a numpy integer or a 0-d
                # array (hand-built samples, values read back from file attributes)
                pv = int(rng.choice([1, 2, 3, 100, 1000000]))
                th.precision = [pv, np.int64(pv), np.int32(pv), np.array(pv), np.float32(pv)][int(rng.integers(5))]
                rec.count("integer_typed_precisions")
            if rng.random() < 0.2:
                th.precision = float(rng.choice([1e-12, 1e-6, 0.999, 1e6, 1000001.0, 3e7, 1e9, 1e15]))
            tids = np.asarray(screen.treatment_ids)
            sids = np.asarray(screen.sample_ids)
            has_control = bool((tids == -1).any())
            rec.case((kind, kit.digest(theta_arrays(th)), kit.array_hash(tids), kit.array_hash(sids)), nontrivial=has_control and screen.size >= 2)
            rec.count("theta_screen_pairs")
            rec.count("pairs_" + kind)
            w = {"kind": kind, "arity": arity, "rows": int(screen.size), "treatment_ids": tids.tolist()[:12], "sample_ids": sids.tolist()[:12], "n_treatments": nT}
            try:
                mean = np.asarray(th.predict_conditional_mean(screen), dtype=float)
                via = np.asarray(th.predict_viability(screen), dtype=float)
                var = np.asarray(th.predict_conditional_variance(screen), dtype=float)
            except Exception as e:
                rec.violation("C09/predict/raises", "%s prediction raised %r\n%s" % (kind, e, kit.tb()), w)
                continue
            n = screen.size
            rec.check(mean.shape == (n,) and via.shape == (n,) and var.shape == (n,), "C09/shape", "prediction shapes %r %r %r for %d rows" % (mean.shape, via.shape, var.shape, n), w)
            # ---- variance
            rec.check(bool(np.all(var > 0)) and bool(np.all(var == 1.0 / th.precision)), "C09/variance/not-reciprocal-precision", lambda: "variance %r, precision %r" % (var[:4].tolist(), th.precision), w)
            # ---- scalar reference for the mean / viability
            if kind == "sparse":
                for i in range(n):
                    r, mag = ref_mean_sparse(th, int(sids[i]), tids[i])
                    ok = abs(mean[i] - r) <= 1e-12 * (1.0 + mag)
                    if not rec.check(ok, "C09/mean/differs-from-reference", lambda: "row %d (sample %d, treatments %r): mean %r, scalar reference %r" % (i, sids[i], tids[i].tolist(), mean[i], r), w):
                        break
                want_v = np.clip(np.array([expit(float(m)) for m in mean]), 0.01, 0.99)
                rec.check(kit.close(via, want_v, rel=1e-13), "C09/viability/not-clipped-logistic", lambda: "viability %r, clip(expit(mean)) %r" % (via[:4].tolist(), want_v[:4].tolist()), w)
                rec.check(bool(np.all((via >= 0.01) & (via <= 0.99))), "C09/viability/out-of-range", "viability outside [0.01,0.99]", w)
            else:
                for i in range(n):
                    a, b = int(tids[i, 0]), int(tids[i, 1])
                    if a == -1 or b == -1:
                        rec.count("control_neutrality_rows")
                        if not rec.check(mean[i] == 0.0, "C09/control/contributes", lambda: "interaction mean %r for row %d with a control (%r)" % (mean[i], i, tids[i].tolist()), w):
                            break
                    else:
                        r = math.fsum(float(th.W[sids[i], d_]) * float(th.V2[a, d_]) * float(th.V2[b, d_]) for d_ in range(th.W.shape[1]))
                        mag = math.fsum(abs(float(th.W[sids[i], d_]) * float(th.V2[a, d_]) * float(th.V2[b, d_])) for d_ in range(th.W.shape[1]))
                        if not rec.check(abs(mean[i] - r) <= 1e-12 * (1 + mag), "C09/mean/differs-from-reference", lambda: "row %d interaction mean %r, reference %r" % (i, mean[i], r), w):
                            break
                se = np.clip([th.single_effect_lookup[int(c), int(a)] * th.single_effect_lookup[int(c), int(b)] for c, a, b in zip(sids, tids[:, 0], tids[:, 1])], 0.01, 0.99)
                with np.errstate(over="ignore"):
                    want_v = np.clip(np.exp(mean + np.log(se)), 0.01, 0.99)
                rec.check(kit.close(via, want_v, rel=1e-13), "C09/viability/not-documented-formula", "interaction viability differs from its documented formula", w)
                rec.check(bool(np.all((via >= 0.01) & (via <= 0.99))), "C09/viability/out-of-range", "viability outside [0.01,0.99]", w)
                if n and rng.random() < 0.5:
                    # the single effects of a sample are re-measured (the model's own table is updated in place when a
                    # later batch repeats a single-agent well): same dict object, same keys, other values - and another
                    # sample that shares nothing with this one predicts in between in half of the cases
                    for key_ in list(th.single_effect_lookup):
                        if rng.random() < 0.6:
                            th.single_effect_lookup[key_] = float(rng.uniform(0.05, 0.95))
                    if rng.random() < 0.5:
                        gen.random_interaction_theta(rng, nS, nT).predict_viability(screen)
                    via2 = np.asarray(th.predict_viability(screen), dtype=float)
                    se2 = np.clip([th.single_effect_lookup[int(c), int(a)] * th.single_effect_lookup[int(c), int(b)] for c, a, b in zip(sids, tids[:, 0], tids[:, 1])], 0.01, 0.99)
                    with np.errstate(over="ignore"):
                        want2 = np.clip(np.exp(mean + np.log(se2)), 0.01, 0.99)
                    rec.count("predictions_after_the_single_effects_were_updated_in_place")
                    rec.check(kit.close(via2, want2, rel=1e-13), "C09/purity/prediction-remembers-earlier-parameters", lambda: "after the sample's single effects were updated in place the viability is %r, its formula gives %r (before the update: %r)" % (via2[:4].tolist(), want2[:4].tolist(), via[:4].tolist()), w)
                    via = via2

            # ---- subset == whole[rows]
            for _ in range(3):
                u = rng.random()
                m = np.zeros(n, dtype=bool) if u < 0.1 else np.ones(n, dtype=bool) if u < 0.2 else rng.random(n) < 0.5
                sub = screen.subset(m)
                try:
                    sm, sv, svar = th.predict_conditional_mean(sub), th.predict_viability(sub), th.predict_conditional_variance(sub)
                except Exception as e:
                    if m.any():
                        rec.violation("C09/predict/raises-on-subset", "prediction on a subset raised %r" % (e,), w)
                    else:
                        rec.did_not_return("predict-empty-subset", e)
                    continue
                rec.count("subset_checks")
                ok = np.array_equal(np.asarray(sm), mean[m]) and np.array_equal(np.asarray(sv), via[m]) and np.asarray(svar).shape == (int(m.sum()),)
                if not ok:
                    ok = kit.close(sm, mean[m], rel=1e-15) and kit.close(sv, via[m], rel=1e-15)
                rec.check(ok, "C09/rowwise/subset-differs-from-whole", lambda: "subset %r: means %r vs whole %r" % (np.flatnonzero(m).tolist()[:10], np.asarray(sm)[:4].tolist(), mean[m][:4].tolist()), w)
            # ---- row permutation
            o = rng.permutation(n)
            kwp = {k: (v[o] if isinstance(v, np.ndarray) else v) for k, v in kw.items()}
            sp_ = Screen(treatment_mapping=screen.treatment_mapping, sample_mapping=screen.sample_mapping, **kwp)
            pm = np.asarray(th.predict_conditional_mean(sp_))
            rec.check(kit.close(pm, mean[o], rel=1e-15), "C09/rowwise/depends-on-row-order", "predictions change with the row order", w)

            if arity == 2:
                # ---- column swap (same mappings)
                kws = dict(kw)
                kws["treatment_names"] = kw["treatment_names"][:, ::-1].copy()
                kws["treatment_doses"] = kw["treatment_doses"][:, ::-1].copy()
                ss = Screen(treatment_mapping=screen.treatment_mapping, sample_mapping=screen.sample_mapping, **kws)
                swm, swv = np.asarray(th.predict_conditional_mean(ss)), np.asarray(th.predict_viability(ss))
                scale = 1.0 + np.abs(mean)
                rec.count("swap_checks")
                rec.check(bool(np.all(np.abs(swm - mean) <= 1e-12 * scale * (1 + _mag(th)))), "C09/symmetry/column-swap-changes-mean", lambda: "swapping the treatment columns changes the mean: %r vs %r" % (swm[:4].tolist(), mean[:4].tolist()), w)
                rec.check(kit.close(swv, via, rel=1e-12, abs_=1e-12), "C09/symmetry/column-swap-changes-viability", "swapping the treatment columns changes the viability", w)
                # ---- a pair with control predicts like the single agent
                if kind == "sparse":
                    rows_ = [i for i in range(n) if ((tids[i] == -1).sum() == 1)]
                    if rows_:
                        pos = [int(np.flatnonzero(tids[i] != -1)[0]) for i in rows_]
                        kw1 = dict(
                            treatment_names=np.array([[kw["treatment_names"][i, p]] for i, p in zip(rows_, pos)], dtype=str),
                            treatment_doses=np.array([[kw["treatment_doses"][i, p]] for i, p in zip(rows_, pos)], dtype=float),
                            sample_names=kw["sample_names"][rows_],
                            plate_names=kw["plate_names"][rows_],
                            control_treatment_name=kw["control_treatment_name"],
                        )
                        s1 = Screen(treatment_mapping=screen.treatment_mapping, sample_mapping=screen.sample_mapping, **kw1)
                        m1 = np.asarray(th.predict_conditional_mean(s1))
                        v1 = np.asarray(th.predict_viability(s1))
                        rec.count("control_neutrality_rows", len(rows_))
                        rec.check(bool(np.all(np.abs(m1 - mean[rows_]) <= 1e-12 * (1 + np.abs(m1)) * (1 + _mag(th)))), "C09/control/pair-with-control-differs-from-single-agent", lambda: "pair-with-control means %r, single-agent means %r (treatment ids %r)" % (mean[rows_][:4].tolist(), m1[:4].tolist(), tids[rows_][:4].tolist()), w)
                        rec.check(kit.close(v1, via[rows_], rel=1e-12, abs_=1e-12), "C09/control/pair-with-control-differs-from-single-agent", "pair-with-control viability differs from the single agent's", w)
                    both = [i for i in range(n) if (tids[i] == -1).all()]
                    if both:
                        rec.count("control_neutrality_rows", len(both))
                        want = float(th.alpha) + th.W0[sids[both]]
                        rec.check(kit.close(mean[both], want, rel=1e-13), "C09/control/contributes", "a row with two controls does not predict the bare intercept", w)

            # ---- stacked and averaged helpers
            if pi % 8 == 0:
                T = int(rng.integers(1, 5))
                holder = ThetaHolder(n_thetas=T)
                ths = [th] + [(gen.random_sparse_combo_theta(rng, nS, nT) if kind == "sparse" else gen.random_interaction_theta(rng, nS, nT)) for _ in range(T - 1)]
                for t_ in ths:
                    holder.add_theta(t_)
                data = screen if rng.random() < 0.5 else screen.subset(rng.random(n) < 0.7)
                if data.size == 0:
                    data = screen
                try:
                    va, ma, vra = MM.predict_viability_all(data, holder), MM.predict_mean_all(data, holder), MM.predict_variance_all(data, holder)
                    vavg, mavg = MM.predict_viability_avg(data, holder), MM.predict_mean_avg(data, holder)
                except Exception as e:
                    rec.violation("C09/helpers/raise", "predict_*_all/avg raised %r\n%s" % (e, kit.tb()), w)
                    continue
                rec.count("helper_checks")
                ok = va.shape == (T, data.size) and ma.shape == (T, data.size) and vra.shape == (T, data.size)
                rec.check(ok, "C09/helpers/shape", "stacked helper shapes %r %r %r" % (va.shape, ma.shape, vra.shape), w)
                if ok:
                    for k_, t_ in enumerate(ths):
                        rec.check(np.array_equal(va[k_], t_.predict_viability(data)) and np.array_equal(ma[k_], t_.predict_conditional_mean(data)) and np.array_equal(vra[k_], t_.predict_conditional_variance(data)), "C09/helpers/row-not-holder-order", lambda: "row %d of a stacked helper is not the prediction of holder entry %d" % (k_, k_), w)
                    want_v = np.array([math.fsum(va[:, e]) / T for e in range(data.size)])
                    want_m = np.array([math.fsum(ma[:, e]) / T for e in range(data.size)])
                    rec.check(kit.close(vavg, want_v, rel=1e-12) and kit.close(mavg, want_m, rel=1e-12), "C09/helpers/avg-not-the-mean", lambda: "averaged helper %r, exact mean %r (T=%d)" % (np.asarray(vavg)[:3].tolist(), want_v[:3].tolist(), T), w)
                if kind == "sparse" and T >= 2 and rng.random() < 0.5:
                    # user-defined sample types that remember what they predicted for a data set and hand the SAME array
                    # back (memoised predictions): the helpers only read what they are handed
                    memo_cls = type("MemoSample", (type(ths[0]),), {"predict_conditional_mean": _memo("predict_conditional_mean"), "predict_viability": _memo("predict_viability")})
                    mh = ThetaHolder(n_thetas=T)
                    memos = []
                    for t_ in ths:
                        mt = memo_cls(**{f_: getattr(t_, f_) for f_ in ("W", "W0", "V2", "V1", "V0", "alpha", "precision")})
                        memos.append(mt)
                        mh.add_theta(mt)
                    try:
                        first_m = [np.array(mt.predict_conditional_mean(data), copy=True) for mt in memos]
                        first_v = [np.array(mt.predict_viability(data), copy=True) for mt in memos]
                        for hname in ("predict_mean_avg", "predict_viability_avg", "predict_mean_all", "predict_viability_all"):
                            getattr(MM, hname)(data, mh)
                        rec.count("helper_runs_on_memoising_sample_types")
                        still = all(np.array_equal(mt.predict_conditional_mean(data), a_) and np.array_equal(mt.predict_viability(data), b_) for mt, a_, b_ in zip(memos, first_m, first_v))
                        rec.check(still, "C09/purity/helper-writes-into-what-a-sample-returned", "after the averaging / stacking helpers ran, a sample that memoises its predictions predicts something else for the same data: a helper wrote into the array a sample had returned", w)
                        rec.check(kit.close(MM.predict_mean_avg(data, mh), want_m, rel=1e-12) if ok else True, "C09/helpers/avg-not-the-mean", "the average over memoising samples is not the exact mean", w)
                    except Exception as e:
                        rec.violation("C09/helpers/raise", "helpers on a memoising sample type raised %r" % (e,), w)
                # a collection that holds fewer samples than it declares (a short run, a partial chain): every helper
                # either refuses or returns one row per HELD sample and their exact mean - never padded rows
                part = ThetaHolder(n_thetas=T + int(rng.integers(1, 4)))
                for t_ in ths:
                    part.add_theta(t_)
                for hname in ("predict_viability_all", "predict_mean_all", "predict_variance_all", "predict_viability_avg", "predict_mean_avg"):
                    rec.count("partial_holder_helper_calls")
                    try:
                        out_ = np.asarray(getattr(MM, hname)(data, part))
                    except Exception:
                        continue  # a refusal
                    if hname.endswith("_all"):
                        src = {"predict_viability_all": va, "predict_mean_all": ma, "predict_variance_all": vra}[hname]
                        rec.check(out_.shape == src.shape and np.array_equal(out_, src), "C09/helpers/row-not-holder-order", lambda: "%s on a collection holding %d of %d declared samples returned shape %r (not one row per held sample, or other values)" % (hname, T, part.n_thetas, out_.shape), w)
                    else:
                        src = vavg if hname == "predict_viability_avg" else mavg
                        rec.check(out_.shape == np.asarray(src).shape and kit.close(out_, np.asarray(src), rel=1e-12), "C09/helpers/avg-not-the-mean", lambda: "%s on a collection holding %d of %d declared samples is not the mean of the held samples" % (hname, T, part.n_thetas), w)
            if pi == 0 and shard == 0:
                rec.sample({"kind": kind, "arity": arity, "treatment_ids": tids.tolist()[:6], "mean": mean[:6].tolist(), "viability": via[:6].tolist(), "variance": float(var[0]) if n else None})
        large_screens(rec, tier, rng)
        if shard == 3:
            whole_library_screen(rec, tier, rng)
    finally:
        P.undo()
    if tier == "thorough" and shard == 0:
        run_repo_tests(rec)


def large_screens(rec, tier, rng):
    """Screens of several thousand rows: a blocked / chunked implementation must still be row-wise exact."""
    from batchie.data import Screen, ExperimentSpace

    for li in range(1 if tier == "quick" else 4):
        n = int(rng.choice([4095, 4096, 4097, 5000, 6300, 8193, 9001]))
        nS, nD = int(rng.integers(2, 6)), int(rng.integers(3, 8))
        drugs = np.array(["d%02d" % i for i in range(nD)] + [""])
        tn = drugs[rng.integers(0, nD + 1, size=(n, 2))]
        td = np.where(tn == "", 0.0, rng.choice([0.5, 1.0, 2.0], size=(n, 2)))
        sn = np.array(["s%d" % i for i in rng.integers(0, nS, size=n)])
        screen = Screen(treatment_names=tn.astype(str), treatment_doses=td.astype(float), sample_names=sn.astype(str), plate_names=np.array(["p"] * n, dtype=str))
        sp = ExperimentSpace.from_screen(screen)
        for kind in ("sparse", "interaction"):
            th = gen.random_sparse_combo_theta(rng, sp.n_unique_samples, sp.n_unique_treatments, scale=1.0) if kind == "sparse" else gen.random_interaction_theta(rng, sp.n_unique_samples, sp.n_unique_treatments, scale=1.0)
            sids, tids = np.asarray(screen.sample_ids), np.asarray(screen.treatment_ids)
            z = lambda A: np.concatenate([np.asarray(A, dtype=float), np.zeros((1,) + np.asarray(A).shape[1:])])  # row -1 == control == 0
            W = th.W[sids]
            if kind == "sparse":
                ref = th.alpha + th.W0[sids] + z(th.V0)[tids[:, 0]] + z(th.V0)[tids[:, 1]] + np.sum(W * (z(th.V1)[tids[:, 0]] + z(th.V1)[tids[:, 1]]), axis=1) + np.sum(W * z(th.V2)[tids[:, 0]] * z(th.V2)[tids[:, 1]], axis=1)
            else:
                ref = np.sum(W * z(th.V2)[tids[:, 0]] * z(th.V2)[tids[:, 1]], axis=1)
            w = {"kind": kind, "rows": n, "large": True}
            rec.case(("large", kind, n, li), nontrivial=True)
            rec.count("large_screens")
            try:
                mean = np.asarray(th.predict_conditional_mean(screen), dtype=float)
                via = np.asarray(th.predict_viability(screen), dtype=float)
                var = np.asarray(th.predict_conditional_variance(screen), dtype=float)
            except Exception as e:
                rec.violation("C09/predict/raises", "%s prediction on %d rows raised %r" % (kind, n, e), w)
                continue
            bad = np.flatnonzero(np.abs(mean - ref) > 1e-9 * (1 + np.abs(ref)) * (1 + _mag(th))) if mean.shape == ref.shape else np.array([0])
            rec.check(mean.shape == (n,) and bad.size == 0, "C09/mean/differs-from-reference", lambda: "%d-row screen: %d rows differ from the row-wise reference, first at row %d" % (n, bad.size, int(bad[0])), w)
            rec.check(var.shape == (n,) and bool(np.all(var == 1.0 / th.precision)), "C09/variance/not-reciprocal-precision", "variance wrong on a %d-row screen" % n, w)
            m = rng.random(n) < 0.5
            sub = screen.subset(m)
            rec.check(np.array_equal(np.asarray(th.predict_conditional_mean(sub)), mean[m]) and np.array_equal(np.asarray(th.predict_viability(sub)), via[m]), "C09/rowwise/subset-differs-from-whole", "subset of a %d-row screen predicts differently from the whole" % n, w)
            o = rng.permutation(n)
            sp2 = Screen(treatment_names=tn[o].astype(str), treatment_doses=td[o].astype(float), sample_names=sn[o].astype(str), plate_names=np.array(["p"] * n, dtype=str), treatment_mapping=screen.treatment_mapping, sample_mapping=screen.sample_mapping)
            rec.check(kit.close(np.asarray(th.predict_conditional_mean(sp2)), mean[o], rel=1e-15), "C09/rowwise/depends-on-row-order", "predictions on a %d-row screen change with the row order" % n, w)


def whole_library_screen(rec, tier, rng):
    """A screen of whole-library size: several hundred thousand experiments and embeddings of 16 / 64 dimensions (more
    than 2**24 gathered entries). A prediction is a function of the experiment alone at this size too: sampled rows
    agree with the double-precision row-wise reference, with the prediction of a subset and of a small plate."""
    from batchie.data import Screen, ExperimentSpace

    for n, D in ([(262500, 64)] if tier == "quick" else [(262500, 64), (1050000, 16), (131100, 128)]):
        nS, nD = 40, 300
        drugs = np.array(["d%03d" % i for i in range(nD)] + [""])
        tn = drugs[rng.integers(0, nD + 1, size=(n, 2))]
        td = np.where(tn == "", 0.0, rng.choice([0.5, 1.0, 2.0], size=(n, 2)))
        sn = np.array(["s%02d" % i for i in rng.integers(0, nS, size=n)])
        pn = np.array(["p"] * n, dtype="<U5")
        pn[-37:] = "small"
        screen = Screen(treatment_names=tn.astype(str), treatment_doses=td.astype(float), sample_names=sn.astype(str), plate_names=pn)
        sp = ExperimentSpace.from_screen(screen)
        for kind in ("sparse", "interaction"):
            th = gen.random_sparse_combo_theta(rng, sp.n_unique_samples, sp.n_unique_treatments, D=D, scale=0.3) if kind == "sparse" else gen.random_interaction_theta(rng, sp.n_unique_samples, sp.n_unique_treatments, D=D, scale=0.3)
            w = {"kind": kind, "rows": n, "dims": D, "gathered_entries": n * D}
            rec.case(("whole-library", kind, n, D), nontrivial=True)
            try:
                mean = np.asarray(th.predict_conditional_mean(screen), dtype=float)
                via = np.asarray(th.predict_viability(screen), dtype=float)
            except Exception as e:
                rec.violation("C09/predict/raises", "%s prediction on %d rows raised %r" % (kind, n, e), w)
                continue
            rec.count("whole_library_predictions")
            rows = np.sort(rng.choice(n, size=3000, replace=False))
            sids, tids = np.asarray(screen.sample_ids)[rows], np.asarray(screen.treatment_ids)[rows]
            z = lambda A: np.concatenate([np.asarray(A, dtype=float), np.zeros((1,) + np.asarray(A).shape[1:])])
            W = np.asarray(th.W, dtype=float)[sids]
            if kind == "sparse":
                ref = th.alpha + th.W0[sids] + z(th.V0)[tids[:, 0]] + z(th.V0)[tids[:, 1]] + np.sum(W * (z(th.V1)[tids[:, 0]] + z(th.V1)[tids[:, 1]]), axis=1) + np.sum(W * z(th.V2)[tids[:, 0]] * z(th.V2)[tids[:, 1]], axis=1)
            else:
                ref = np.sum(W * z(th.V2)[tids[:, 0]] * z(th.V2)[tids[:, 1]], axis=1)
            bad = np.flatnonzero(np.abs(mean[rows] - ref) > 1e-9 * (1 + np.abs(ref)) * (1 + _mag(th)))
            rec.check(mean.shape == (n,) and bad.size == 0, "C09/mean/differs-from-reference", lambda: "%d-row screen, %d dimensions: %d of 3000 sampled rows differ from the double-precision row-wise reference, first by %r" % (n, D, bad.size, float(np.abs(mean[rows] - ref)[bad[0]])), w)
            m = np.zeros(n, dtype=bool)
            m[rows] = True
            sub = screen.subset(m)
            rec.check(np.array_equal(np.asarray(th.predict_conditional_mean(sub)), mean[m]) and np.array_equal(np.asarray(th.predict_viability(sub)), via[m]), "C09/rowwise/subset-differs-from-whole", "a 3000-row subset of a %d-row screen (%d dimensions) predicts differently from the whole" % (n, D), w)
            small = [p for p in screen.plates if p.size == 37][0]
            rec.check(np.array_equal(np.asarray(th.predict_conditional_mean(small)), mean[np.asarray(small.selection_vector)]), "C09/rowwise/subset-differs-from-whole", "a 37-experiment plate of a %d-row screen (%d dimensions) predicts differently from the whole" % (n, D), w)
        del screen


_MEMO = {}


def _memo(name):
    def f(self, data):
        key = (name, id(self), id(data))
        if key not in _MEMO or _MEMO[key][0] is not self or _MEMO[key][1] is not data:
            if len(_MEMO) > 400:
                _MEMO.clear()
            _MEMO[key] = (self, data, getattr(super(type(self), self), name)(data))
        return _MEMO[key][2]

    return f


def _mag(th):
    m = 0.0
    for k in ("W", "V1", "V2", "W0", "V0"):
        v = getattr(th, k, None)
        if v is not None and np.size(v):
            m = max(m, float(np.abs(v).max()))
    return m * m * m + m * m + m


def run_repo_tests(rec):
    import json, subprocess, sys, tempfile
    from .. import repoimport

    root = os.path.dirname(os.path.dirname(os.path.dirname(os.path.abspath(__file__))))
    out = tempfile.mktemp(prefix="vf-pytest-", suffix=".json", dir=os.environ.get("VERIF_RUN_ROOT") or os.environ.get("VERIF_SCRATCH", "/var/tmp"))
    env = dict(os.environ)
    env["PYTHONPATH"] = root + os.pathsep + os.path.join(repoimport.REPO, "src")
    env["VF_PLUGIN_OUT"] = out
    env["VF_PLUGIN_WANT"] = "C09"
    try:
        p = subprocess.run([sys.executable, "-B", "-m", "pytest", "-q", "-p", "no:cacheprovider", "-p", "vf.pytest_plugin", "src/batchie/models", "src/batchie/cli", "src/batchie/scoring"], cwd=repoimport.REPO, env=env, stdout=subprocess.PIPE, stderr=subprocess.STDOUT, timeout=1800)
    except subprocess.TimeoutExpired:
        rec.notes.append("repo test-suite under purity monitor: watchdog")
        return
    if os.path.exists(out):
        with open(out) as f:
            r = json.load(f)
        os.remove(out)
        rec.count("testsuite_purity_checks", r["counters"].get("purity_checks", 0))
        rec.count("oracle_evals", r["counters"].get("oracle_evals", 0))
        for v in r["violations"]:
            rec.violation(v["key"], "[under repo test-suite] " + v["message"], v["witness"])
    else:
        rec.notes.append("repo test-suite under purity monitor produced no report: rc=%s" % p.returncode)
