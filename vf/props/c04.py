"""C04 - masked observations never influence training, scoring or selection."""
import os
from collections import Counter

import numpy as np

from .. import kit, gen

PROP, NUM = "C04", 4
LEVEL = "exploration"
SHARDS = {"quick": 8, "thorough": 16}
TIMEOUT = {"quick": 1200, "thorough": 7200}
RULE = (
    "pairs of partially observed screens (2-8 plates, 1-6 observed) that differ only in the values stored behind the mask "
    "(random finite, 0, 1, NaN, -1, 1e300); both shipped MCMC models; each member of a pair runs observed-subset -> "
    "add_observations -> sampling.sample (2 chains x 3 samples) -> distance chunks -> score chunks (GaussianDBAL all "
    "triples / sub-sampled, Random, Size; n_chunks 1-5; batches of 0-3 plates) -> select_next_plate (with/without the "
    "k-per-sample policy), also through the four CLI mains on files (2 pairs quick, 96 thorough); every artefact compared byte-wise; a "
    "wrapper on add_observations compares the sampler's training arrays with the documented row set and transform; "
    "refusal cases (masked rows, negative, NaN); two-batch histories (add, step, add) compared with a fresh model holding the same rows, sampler state and generator. A case is one pair, one training-set check or one refusal; distinct = "
    "(screen hash, replacement kind, model, scorer, n_chunks, batch); non-trivial = >=1 masked row and >=1 observed row"
)
ASSUMPTIONS = ["observed values exactly 0 or 1 are outside the interaction model's transform (logit gives +-inf) and are not generated for it", "both members of a pair use the same seed and the same global numpy seed so that only masked values differ"]
REQUIRED = {"cli_pipelines_on_a_path_that_held_the_unmasked_screen_before": {"quick": 8, "thorough": 40}, "pipelines_after_looking_at_views": {"quick": 40, "thorough": 600}, "pairs_with_an_oracle_model_in_the_same_process": {"quick": 100, "thorough": 1200}, "refused_deliveries_of_results": {"quick": 200, "thorough": 2500}, "own_parameter_blocks_compared": {"quick": 250, "thorough": 3000}, "single_observation_changes": {"quick": 300, "thorough": 4000}, "single_observation_changes_of_a_cell_lines_only_experiment": {"quick": 30, "thorough": 400}, "refusals_of_tiny_negative_values": {"quick": 150, "thorough": 2000}, "pairs_with_non_default_model_switches": {"quick": 80, "thorough": 1000}, "refusals_checked_for_side_effects": {"quick": 200, "thorough": 2500}, "training_sets_with_values_above_one": {"quick": 40, "thorough": 500}, "two_batch_histories": {"quick": 100, "thorough": 1200}, "cli_pairs": {"quick": 6, "thorough": 40}, "cli_replacement_nan": {"quick": 1, "thorough": 6}, "pairs_compared": {"quick": 250, "thorough": 3000}, "artefacts_compared": {"quick": 1200, "thorough": 15000}, "training_set_checks": {"quick": 250, "thorough": 3000}, "refusals_checked": {"quick": 2000, "thorough": 25000}}
N_PAIRS = {"quick": 640, "thorough": 6400}


def logit32(x):
    from scipy.special import logit

    return logit(x)


def expected_training(model_name, data):
    """documented training multiset for a fully observed view"""
    obs = np.asarray(data.observations)
    tids = np.asarray(data.treatment_ids)
    sids = np.asarray(data.sample_ids)
    out = []
    if model_name == "SparseDrugCombo":
        y = logit32(np.clip(obs.astype(np.float32), 0.01, 0.99))
        rows_ = range(len(obs))
    else:
        y = logit32(obs.astype(np.float32))
        rows_ = [i for i in range(len(obs)) if not (tids[i] == -1).any()]
    for i in rows_:
        out.append((int(sids[i]), int(tids[i, 0]), int(tids[i, 1]), float(y[i])))
    return out


def check_training_set(rec, model_name, model, data, w):
    wm = model.wrapped_model
    got = [(int(c), int(a), int(b), float(y)) for c, a, b, y in zip(wm.cline, wm.dd1, wm.dd2, wm.y)]
    want = expected_training(model_name, data)
    rec.count("training_set_checks")
    key = lambda t: (t[0], t[1], t[2])
    cg, cw = Counter(map(key, got)), Counter(map(key, want))
    rec.check(cg == cw, "C04/%s/training-rows-differ" % model_name, lambda: "%s was handed %d rows %r..., documented training set has %d rows %r... (missing %r, extra %r)" % (model_name, len(got), sorted(cg.items())[:4], len(want), sorted(cw.items())[:4], sorted((cw - cg).items())[:4], sorted((cg - cw).items())[:4]), w)
    if cg == cw:
        gs, ws = sorted(got), sorted(want)
        bad = [(g, x) for g, x in zip(gs, ws) if not (abs(g[3] - x[3]) <= 5e-6 * (1 + abs(x[3])) or (np.isinf(g[3]) and g[3] == x[3]))]
        rec.check(not bad, "C04/%s/transform-differs" % model_name, lambda: "%s training value %r, documented transform gives %r" % (model_name, bad[0][0], bad[0][1]), w)
    rec.check(int(model.n_obs()) == len(want), "C04/%s/n_obs" % model_name, lambda: "n_obs()=%d for %d documented training rows" % (model.n_obs(), len(want)), w)
    if model_name == "SparseDrugComboInteraction":
        # the single-agent effects it predicts with: mean of the sample's observed single-agent values, 1 for control
        obs, tids, sids = np.asarray(data.observations, dtype=float), np.asarray(data.treatment_ids), np.asarray(data.sample_ids)
        ref = {}
        acc = {}
        for i in range(len(obs)):
            nc = [int(t) for t in tids[i] if t != -1]
            if len(nc) == 1:
                acc.setdefault((int(sids[i]), nc[0]), []).append(obs[i])
        for c in sorted(set(int(x) for x in sids)):
            if (tids == -1).any():
                ref[(c, -1)] = 1.0
        for k_, v_ in acc.items():
            ref[k_] = float(np.mean(v_))
        got_l = {(int(k_[0]), int(k_[1])): float(v_) for k_, v_ in model.single_effect_lookup.items()}
        ok = set(ref) <= set(got_l) and all(abs(got_l[k_] - ref[k_]) <= 1e-12 * (1 + abs(ref[k_])) for k_ in ref)
        extra = sorted(k_ for k_ in got_l if k_ not in ref and k_[1] != -1)
        rec.check(not extra, "C04/SparseDrugComboInteraction/single-effect-table-has-unobserved-entries", lambda: "the model's single-agent effect table lists %r, for which the data handed to the model holds no single-agent experiment" % (extra[:6],), w)
        rec.check(ok, "C04/SparseDrugComboInteraction/single-effect-table-differs", lambda: "single-agent effect table %r, the observed single-agent experiments give %r" % (dict(list(got_l.items())[:5]), dict(list(ref.items())[:5])), w)


def gen_pair_screen(rng, for_interaction):
    """partially observed arity-2 screen; for the interaction model every (sample, drug-dose) has an observed single-agent row"""
    ns, nd = int(rng.integers(1, 4)), int(rng.integers(2, 5))
    samples = ["s%d" % i for i in range(ns)]
    conds = [("d%d" % i, float(dose)) for i in range(nd) for dose in ([1.0] if rng.random() < 0.6 else [1.0, 2.0])]
    n_pl = int(rng.integers(2, 9))
    n_obs_pl = int(rng.integers(1, min(6, n_pl - 1) + 1))
    plates = ["p%d" % i for i in range(n_pl)]
    observed_plates = set(plates[:n_obs_pl])
    rows = []
    if (for_interaction and rng.random() < 0.6) or (not for_interaction and rng.random() < 0.5):
        for s in samples:
            for c in conds:
                pos = int(rng.integers(2))
                t = [("", 0.0), ("", 0.0)]
                t[pos] = c
                rows.append((s, t, plates[int(rng.integers(n_obs_pl))]))
    n_extra = int(rng.integers(6, 30))
    singles_only_observed = bool(for_interaction and rng.random() < 0.15)
    for _ in range(n_extra):
        s = samples[int(rng.integers(ns))]
        a, b = int(rng.integers(len(conds))), int(rng.integers(len(conds)))
        if conds[a][0] == conds[b][0]:
            b = (a + 1) % len(conds)
            if conds[a][0] == conds[b][0]:
                continue
        u = rng.random()
        t = [conds[a], conds[b]]
        if u < (0.35 if for_interaction else 0.15):
            t[int(rng.integers(2))] = ("", 0.0)
        elif u < (0.42 if for_interaction else 0.2):
            t = [("", 0.0), ("", 0.0)]  # a vehicle well: control in both columns
        is_combo = t[0][0] != "" and t[1][0] != ""
        if singles_only_observed and is_combo:
            # the first round of a screen: only the single-agent plate(s) have been run so far
            rows.append((s, t, plates[n_obs_pl + int(rng.integers(n_pl - n_obs_pl))]))
        else:
            rows.append((s, t, plates[int(rng.integers(n_pl))]))
    # every plate needs a row
    for p in plates:
        if not any(r[2] == p for r in rows):
            a = int(rng.integers(len(conds)))
            b = (a + 1) % len(conds)
            if conds[a][0] != conds[b][0]:
                rows.append((samples[0], [conds[a], conds[b]], p))
    order = rng.permutation(len(rows))
    rows = [rows[i] for i in order]
    n = len(rows)
    pn = np.array([r[2] for r in rows], dtype=str)
    present = sorted(set(pn.tolist()))
    mask = np.array([r[2] in observed_plates for r in rows], dtype=bool)
    if mask.all() or not mask.any():
        return None
    obs = rng.uniform(0.03, 0.97, size=n)
    if not for_interaction:
        # values outside the clip bounds among the observed rows
        for _ in range(int(rng.integers(0, 4))):
            obs[int(rng.integers(n))] = float(rng.choice([0.0, 0.004, 0.5e-2, 0.995, 1.0, 1.7]))
    kw = dict(
        treatment_names=np.array([[r[1][0][0], r[1][1][0]] for r in rows], dtype=str),
        treatment_doses=np.array([[r[1][0][1], r[1][1][1]] for r in rows], dtype=float),
        sample_names=np.array([r[0] for r in rows], dtype=str),
        plate_names=pn,
        observations=obs,
        observation_mask=mask,
        control_treatment_name="",
    )
    return kw


REPLACEMENTS = ["random", "zero", "one", "nan", "neg", "huge"]


def replace_masked(rng, obs, mask, kind):
    out = obs.copy()
    m = ~mask
    if kind == "random":
        out[m] = rng.uniform(0, 1, size=int(m.sum()))
    elif kind == "zero":
        out[m] = 0.0
    elif kind == "one":
        out[m] = 1.0
    elif kind == "nan":
        out[m] = np.nan
    elif kind == "neg":
        out[m] = -1.0
    else:
        out[m] = 1e300
    return out


def theta_bytes(holder):
    out = []
    for th in holder.thetas:
        d = th.private_parameters_dict()
        out.append([(k, kit.array_hash(v) if isinstance(v, np.ndarray) else repr(float(v))) for k, v in sorted(d.items()) if not isinstance(v, dict)])
        if hasattr(th, "single_effect_lookup"):
            out.append(sorted(((int(k[0]), int(k[1])), float(v).hex()) for k, v in th.single_effect_lookup.items()))
    return out


def run_shard(rec, tier, seed, shard, nshards):
    from batchie.data import Screen, ExperimentSpace
    from batchie.core import ThetaHolder, BayesianModel
    from batchie import sampling
    from batchie.models.sparse_combo import SparseDrugCombo
    from batchie.models.sparse_combo_interaction import SparseDrugComboInteraction
    from batchie.distance_calculation import calculate_pairwise_distance_matrix_on_predictions, ChunkedDistanceMatrix
    from batchie.distance.mse import MSEDistance
    from batchie.scoring.main import score_chunk, select_next_plate, ChunkedScoresHolder
    from batchie.scoring.gaussian_dbal import GaussianDBALScorer
    from batchie.scoring.rand import RandomScorer
    from batchie.scoring.size import SizeScorer
    from batchie.policies.k_per_sample import KPerSamplePlatePolicy

    rng = kit.rng_for(seed, NUM, shard)
    MODELS = {"SparseDrugCombo": SparseDrugCombo, "SparseDrugComboInteraction": SparseDrugComboInteraction}

    def pipeline(screen, mname, cfg, trace):
        """the active-learning step on one screen; returns dict of artefacts"""
        art = {}
        np.random.seed(cfg["npseed"])
        if cfg.get("browse"):
            # before the step the user looks at the data through views: what is observed next to a plate that is not,
            # a few masked plates side by side, the complement of the observed part.  Looking reveals nothing.
            from batchie.data import ScreenSubset

            m_before = np.array(screen.observation_mask, copy=True)
            masked_ = [p_ for p_ in screen.plates if not p_.is_observed]
            brng = np.random.default_rng(cfg["browse"])
            try:
                for _ in range(int(brng.integers(1, 4))):
                    how = int(brng.integers(5))
                    if how == 0 and masked_:
                        ScreenSubset.concat([screen.subset_observed()] + [masked_[int(i)] for i in brng.choice(len(masked_), size=int(brng.integers(1, min(3, len(masked_)) + 1)), replace=False)])
                    elif how == 1 and masked_:
                        screen.subset_observed().combine(masked_[int(brng.integers(len(masked_)))])
                    elif how == 2 and len(masked_) >= 2:
                        ScreenSubset.concat([masked_[0], masked_[-1]]).invert()
                    elif how == 3:
                        screen.subset_unobserved().invert().combine(screen.subset_unobserved())
                    else:
                        ScreenSubset.concat([screen.subset_unobserved(), screen.subset_observed()])
            except Exception as e:
                rec.did_not_return("browse-views", e)
            rec.count("pipelines_after_looking_at_views")
            rec.check(bool(np.array_equal(screen.observation_mask, m_before)), "C04/pipeline/looking-at-views-revealed-rows", lambda: "after view algebra (concat / combine / invert of the observed view and masked plates) %d rows are marked observed, %d before" % (int(np.sum(screen.observation_mask)), int(m_before.sum())), None)
        sub = screen.subset_observed()
        holders = []
        handed = []
        for ch in range(2):
            model = MODELS[mname](experiment_space=ExperimentSpace.from_screen(screen), n_embedding_dimensions=cfg["D"], **cfg.get("model_kwargs", {}))
            try:
                model.add_observations(sub)
            except ValueError as e:
                o_ = np.asarray(sub.observations, dtype=float)
                if bool(np.all(np.isfinite(o_))) and bool(np.all(o_ >= 0)) and bool(np.all(sub.observation_mask)):
                    # finite, non-negative, fully observed: nothing the model documents refusing
                    rec.violation("C04/%s/refuses-legitimate-training-set" % mname, "%s.add_observations raised %r on %d observed rows that are all finite and non-negative (min %r, max %r)" % (mname, e, int(o_.size), float(o_.min()), float(o_.max())), {"observations": o_.tolist()[:40]})
                raise
            rec.count("training_sets_accepted")
            if bool(np.any(np.asarray(sub.observations) > 1.0)):
                rec.count("training_sets_with_values_above_one")
            wm = model.wrapped_model
            handed.append([(int(c), int(a), int(b), float(y).hex()) for c, a, b, y in zip(wm.cline, wm.dd1, wm.dd2, wm.y)])
            if ch == 0:
                trace["model"] = model
                trace["sub"] = sub
            holders.append(sampling.sample(model, ThetaHolder(n_thetas=3), seed=cfg["seed"], n_chains=2, chain_index=ch, n_burnin=1, thin=1))
        thetas = ThetaHolder.concat(holders)
        art["handed_to_model"] = handed
        art["thetas"] = theta_bytes(thetas)
        chunks = [calculate_pairwise_distance_matrix_on_predictions(thetas, MSEDistance(sigmoid=cfg["sigmoid"]), screen, c, cfg["n_dchunks"]) for c in range(cfg["n_dchunks"])]
        dm = ChunkedDistanceMatrix.concat(chunks)
        art["distance"] = kit.array_hash(dm.to_dense())
        scorer = {"dbal": lambda: GaussianDBALScorer(max_chunk=cfg["max_chunk"], max_triples=5000), "dbal-sub": lambda: GaussianDBALScorer(max_chunk=cfg["max_chunk"], max_triples=7), "random": RandomScorer, "size": SizeScorer}[cfg["scorer"]]()
        sh = []
        for c in range(cfg["n_chunks"]):
            sh.append(score_chunk(scorer, thetas, screen, dm, rng=np.random.default_rng(cfg["seed"] + c), n_chunks=cfg["n_chunks"], chunk_index=c, batch_plate_ids=cfg["batch"] or None))
        scores = ChunkedScoresHolder.concat(sh)
        art["scores"] = sorted((int(p), float(s).hex()) for p, s in zip(scores.plate_ids.tolist(), scores.scores.tolist()))
        pol = KPerSamplePlatePolicy(cfg["k"]) if cfg["policy"] else None
        try:
            sel = select_next_plate(scores, screen, pol, batch_plate_ids=list(cfg["batch"]), rng=np.random.default_rng(cfg["seed"]))
            art["selected"] = None if sel is None else int(sel.plate_id)
        except ValueError as e:
            art["selected"] = "ValueError"
        return art

    n_pairs = N_PAIRS[tier] // nshards
    for pi in range(n_pairs):
        mname = "SparseDrugCombo" if pi % 3 else "SparseDrugComboInteraction"
        kw = gen_pair_screen(rng, for_interaction=(mname == "SparseDrugComboInteraction"))
        if kw is None:
            continue
        kind = REPLACEMENTS[int(rng.integers(len(REPLACEMENTS)))]
        kwB = dict(kw, observations=replace_masked(rng, kw["observations"], kw["observation_mask"], kind))
        try:
            A, B = Screen(**kw), Screen(**kwB)
        except Exception as e:
            rec.did_not_return("construct", e)
            continue
        unobs = sorted(int(p.plate_id) for p in A.plates if not p.is_observed)
        bsz = int(rng.integers(0, min(3, len(unobs)) + 1))
        cfg = dict(
            npseed=int(rng.integers(0, 2**31)), seed=int(rng.integers(0, 10000)), D=int(rng.integers(1, 3)), sigmoid=bool(rng.random() < 0.5),
            n_dchunks=int(rng.integers(1, 6)), n_chunks=int(rng.integers(1, 6)), max_chunk=int(rng.choice([1, 2, 50])),
            scorer=str(rng.choice(["dbal", "dbal", "dbal-sub", "random", "size"])), batch=[int(x) for x in rng.choice(unobs, size=bsz, replace=False)] if bsz else [],
            policy=bool(rng.random() < 0.4), k=int(rng.integers(1, 3)),
            browse=int(rng.integers(1, 2**31)) if rng.random() < 0.4 else 0,
        )
        if rng.random() < 0.4:
            # the constructor's switches, any combination (none of them makes a model look behind the mask)
            names_ = ["mult_gamma_proc", "local_shrinkage"] + (["fake_intercept", "individual_eff", "predict_interactions", "interaction_log_transform"] if mname == "SparseDrugCombo" else [])
            cfg["model_kwargs"] = {k_: bool(rng.random() < 0.5) for k_ in names_}
            rec.count("pairs_with_non_default_model_switches")
        w = {"model": mname, "replacement": kind, "cfg": {k: v for k, v in cfg.items()}, "rows": int(A.size), "masked_rows": int((~A.observation_mask).sum()), "plates": {str(p): [int((kw["plate_names"] == p).sum()), bool(kw["observation_mask"][kw["plate_names"] == p][0])] for p in np.unique(kw["plate_names"])}}
        if pi % 2 == 0:
            # another model of the same class lives in this process and has seen the WHOLE screen with other values
            # behind the mask (an oracle for a retrospective comparison): nothing of it reaches the models trained on
            # the observed part
            try:
                n_ = len(kw["observations"])
                oracle_vals = np.where(kw["observation_mask"], kw["observations"], rng.uniform(0.05, 0.95, size=n_))
                full_ = Screen(**dict(kw, observations=oracle_vals, observation_mask=np.ones(n_, dtype=bool)))
                m0 = MODELS[mname](experiment_space=ExperimentSpace.from_screen(full_), n_embedding_dimensions=1)
                m0.add_observations(full_)
                run_shard.__dict__["oracle_model_kept_alive"] = m0
                rec.count("pairs_with_an_oracle_model_in_the_same_process")
            except Exception as e:
                rec.did_not_return("oracle-model", e)
        trA, trB = {}, {}
        try:
            artA = pipeline(A, mname, cfg, trA)
        except Exception as e:
            rec.case(None, nontrivial=False)
            rec.did_not_return("pipeline-A-" + mname, e)
            if "model" in trA:
                check_training_set(rec, mname, trA["model"], trA["sub"], w)
            continue
        check_training_set(rec, mname, trA["model"], trA["sub"], w)
        try:
            artB = pipeline(B, mname, cfg, trB)
        except Exception as e:
            rec.case(None, nontrivial=False)
            rec.violation("C04/pipeline/masked-values-change-outcome", "the pipeline returned on screen A but raised %r on the screen that differs only in masked values (%s)\n%s" % (e, kind, kit.tb()), w)
            continue
        rec.case((kit.array_hash(A.observations), kind, mname, cfg["scorer"], cfg["n_chunks"], tuple(cfg["batch"])), nontrivial=True)
        rec.count("pairs_compared")
        rec.count("pairs_" + mname)
        rec.count("replacement_" + kind)
        for name in ("handed_to_model", "thetas", "distance", "scores", "selected"):
            rec.count("artefacts_compared")
            rec.check(artA[name] == artB[name], "C04/differential/%s-depends-on-masked-values" % name, lambda: "%s (%s, masked values replaced by %s): %s differs between two screens that differ only behind the mask" % (mname, cfg["scorer"], kind, name), w)
        if pi < 2 and shard == 0:
            rec.sample({"model": mname, "replacement": kind, "rows": int(A.size), "masked_rows": w["masked_rows"], "scorer": cfg["scorer"], "n_chunks": cfg["n_chunks"], "batch": cfg["batch"], "selected": artA["selected"]})

        # ---------------- observations added in two batches with sampler steps in between: the model must then be
        # trained on ALL of them - compared with a fresh model that was handed both batches before any step and was
        # given the same numeric sampler state and the same generator
        if pi % 2 == 0:
            two_batches(rec, rng, MODELS[mname], mname, A, w)
        if pi % 2 == 1:
            every_observation_counts(rec, rng, MODELS[mname], mname, kw, cfg, w)

        # ---------------- a delivery of results that is refused half-way (wrong number of values) and caught by the
        #                  caller: the rows it named are still masked, so what the models are trained on does not change
        try:
            A2 = Screen(**{k_: (v_.copy() if isinstance(v_, np.ndarray) else v_) for k_, v_ in kw.items()})
            un_p = [p_ for p_ in A2.plates if not p_.is_observed]
            pl_ = un_p[int(rng.integers(len(un_p)))]
            sel_ = np.asarray(pl_.selection_vector).copy()
            try:
                A2.set_observed(sel_, rng.random(int(sel_.sum()) + 2) + 5.0)
            except Exception:
                rec.count("refused_deliveries_of_results")
                rec.count("oracle_evals")
                sub2 = A2.subset_observed()
                same_rows = sub2 is not None and np.array_equal(np.asarray(sub2.selection_vector), np.asarray(A.observation_mask))
                rec.check(bool(same_rows), "C04/pipeline/refused-results-count-as-observations", lambda: "set_observed refused %d values for the %d rows of an unobserved plate; afterwards subset_observed() selects %d rows (%d before): masked rows would be handed to the model" % (int(sel_.sum()) + 2, int(sel_.sum()), 0 if sub2 is None else int(np.asarray(sub2.selection_vector).sum()), int(np.asarray(A.observation_mask).sum())), w)
                if sub2 is not None:
                    mm = MODELS[mname](experiment_space=ExperimentSpace.from_screen(A2), n_embedding_dimensions=1)
                    try:
                        mm.add_observations(sub2)
                        check_training_set(rec, mname, mm, A.subset_observed(), w)
                    except Exception as e:
                        rec.did_not_return("train-after-refused-delivery", e)
        except Exception as e:
            rec.did_not_return("refused-delivery-setup", e)

        # ---------------- refusals
        for m2 in MODELS:
            def fresh():
                return MODELS[m2](experiment_space=ExperimentSpace.from_screen(A), n_embedding_dimensions=1)

            cases = []
            # (a) a view that still contains masked rows: the whole screen, and observed+one masked row
            cases.append(("masked-rows", lambda: fresh().add_observations(A)))
            sel = A.observation_mask.copy()
            sel[int(rng.choice(np.flatnonzero(~A.observation_mask)))] = True
            cases.append(("masked-rows", lambda: fresh().add_observations(A.subset(sel))))
            # views of type Plate spanning an observed and a masked plate, in both orders (combine / concat / invert)
            obs_p = [p for p in A.plates if p.is_observed]
            un_p = [p for p in A.plates if not p.is_observed]
            if obs_p and un_p:
                po, pu = obs_p[int(rng.integers(len(obs_p)))], un_p[int(rng.integers(len(un_p)))]
                from batchie.data import ScreenSubset as _SS
                cases.append(("masked-rows", lambda: fresh().add_observations(po.combine(pu))))
                cases.append(("masked-rows", lambda: fresh().add_observations(pu.combine(po))))
                cases.append(("masked-rows", lambda: fresh().add_observations(_SS.concat([po, pu]))))
                if len(A.plates) > 1:
                    cases.append(("masked-rows", lambda: fresh().add_observations(po.invert()) if not po.invert().observation_mask.all() else (_ for _ in ()).throw(ValueError("all observed"))))
            # (b)/(c) negative / NaN observation among the observed rows
            for bad, val in (("negative", float(rng.choice([-0.25, -1e-3, -1e-46, -1e-300, -5e-324, -1e300]))), ("nan", float("nan"))):
                o = kw["observations"].copy()
                idx = np.flatnonzero(kw["observation_mask"])
                if m2 == "SparseDrugComboInteraction" and rng.random() < 0.6:
                    combo = [i for i in idx if not (np.asarray(A.treatment_ids)[i] == -1).any()]
                    idx = np.array(combo) if combo else idx
                o[int(rng.choice(idx))] = val
                Sb = Screen(**dict(kw, observations=o))
                if bad == "negative" and abs(val) < 1e-40:
                    rec.count("refusals_of_tiny_negative_values")
                cases.append((bad, lambda Sb=Sb: fresh().add_observations(Sb.subset_observed())))
            for what, f in cases:
                rec.case(("refusal", m2, what), nontrivial=False)
                rec.count("refusals_checked")
                rec.count("oracle_evals")
                try:
                    f()
                    rec.violation("C04/%s/accepts-%s" % (m2, what), "%s.add_observations accepted input with %s" % (m2, what.replace("-", " ")), w)
                except ValueError:
                    pass
                except Exception as e:
                    rec.violation("C04/%s/wrong-exception-on-%s" % (m2, what), "%s.add_observations raised %r instead of ValueError" % (m2, e), w)

            # a refusal leaves no trace: a model that already holds observations (and has exported a sample) is offered a
            # batch with a negative / NaN value; after the ValueError its training set, its single-effect table and the
            # predictions of the sample exported before are what they were
            if pi % 3 == 0:
                try:
                    m = fresh()
                    good = A.subset_observed()
                    m.add_observations(good)
                    theta = m.get_model_state()
                    pred0 = kit.raw_bytes(np.asarray(theta.predict_viability(good)))
                except Exception as e:
                    rec.did_not_return("refusal-setup-" + m2, e)
                    continue
                n0 = int(m.n_obs())
                tab0 = dict(getattr(m, "single_effect_lookup", {}) or {})
                for bad, val in (("negative", -0.25), ("nan", float("nan"))):
                    o = kw["observations"].copy()
                    idx = np.flatnonzero(kw["observation_mask"])
                    if m2 == "SparseDrugComboInteraction" and rng.random() < 0.6:
                        # put the bad value on a combination row so that single-agent rows of the batch are valid
                        combo = [i for i in idx if not (np.asarray(A.treatment_ids)[i] == -1).any()]
                        idx = np.array(combo) if combo else idx
                    o[int(rng.choice(idx))] = val
                    # the other values of the refused batch differ from the accepted ones
                    o2 = np.where(np.isfinite(o) & (o > 0), np.clip(o * 0.5 + 0.2, 0.03, 0.97), o)
                    Sb = Screen(**dict(kw, observations=o2))
                    rec.count("refusals_checked_for_side_effects")
                    try:
                        m.add_observations(Sb.subset_observed())
                        continue  # acceptance is reported by the refusal cases above
                    except ValueError:
                        pass
                    except Exception:
                        continue
                    same_tab = dict(getattr(m, "single_effect_lookup", {}) or {}) == tab0
                    try:
                        same_pred = kit.raw_bytes(np.asarray(theta.predict_viability(good))) == pred0
                    except Exception:
                        same_pred = False
                    rec.check(int(m.n_obs()) == n0 and same_tab and same_pred, "C04/%s/refused-batch-left-a-trace" % m2, lambda: "%s refused a batch with a %s value, but afterwards n_obs %d -> %d, single-effect table unchanged: %s, predictions of the sample exported before unchanged: %s" % (m2, bad, n0, int(m.n_obs()), same_tab, same_pred), w)

    # every replacement kind goes through the command-line entry points in every run (kind by shard and position)
    cli_pairs(rec, rng, shard, n=6 if tier == "thorough" else 1, seed=seed)


def every_observation_counts(rec, rng, cls, mname, kw, cfg, w):
    """'Each observed experiment exactly once' seen from outside: when ONE observed experiment's result changes a lot,
    the posterior samples drawn with the same seed change. Rows tried: the first one handed to the model, the last, a
    random one, and (SparseDrugCombo) a row that is its cell line's only observed experiment, placed first."""
    from batchie.data import Screen, ExperimentSpace
    from batchie.core import ThetaHolder
    from batchie import sampling

    kw = {k: (v.copy() if isinstance(v, np.ndarray) else v) for k, v in kw.items()}
    mask = kw["observation_mask"]
    obs_rows = np.flatnonzero(mask)
    solo = None
    if mname == "SparseDrugCombo" and rng.random() < 0.6:
        # a cell line with one observed experiment only (its other wells are still to be run)
        solo = int(obs_rows[0]) if rng.random() < 0.6 else int(rng.choice(obs_rows))
        names = kw["sample_names"].astype(object)
        names[solo] = "solo"
        un = np.flatnonzero(~mask)
        if len(un) and rng.random() < 0.5:
            names[int(rng.choice(un))] = "solo"
        kw["sample_names"] = names.astype(str)

    def train(kw_):
        scr = Screen(**kw_)
        out = []
        # (a) two samples after a short burn-in; (b) the state after the very first sweep; (c) after the second sweep
        for n_thetas, n_burnin in ((2, 2), (1, 0), (1, 1)):
            m = cls(experiment_space=ExperimentSpace.from_screen(scr), n_embedding_dimensions=cfg["D"], **cfg.get("model_kwargs", {}))
            m.add_observations(scr.subset_observed())
            out.append(sampling.sample(m, ThetaHolder(n_thetas=n_thetas), seed=cfg["seed"], n_chains=1, chain_index=0, n_burnin=n_burnin, thin=1))
        return theta_bytes(out[0]), out[1].thetas[0], scr, out[2].thetas[0]

    try:
        base = train(kw)
    except Exception as e:
        rec.did_not_return("sensitivity-base-" + mname, e)
        return
    tn = kw["treatment_names"]
    is_combo = np.array([(tn[i] != kw["control_treatment_name"]).all() and (kw["treatment_doses"][i] > 0).all() for i in range(len(tn))])
    cand = [int(r) for r in obs_rows if mname == "SparseDrugCombo" or is_combo[r]]
    if not cand:
        return
    rows = {cand[0], cand[-1], int(rng.choice(cand))}
    if solo is not None:
        rows.add(solo)
    for r in sorted(rows):
        o = kw["observations"].copy()
        o[r] = 0.08 if min(max(float(o[r]), 0.0), 1.0) > 0.5 else 0.92
        try:
            other = train(dict(kw, observations=o))
        except Exception as e:
            rec.did_not_return("sensitivity-" + mname, e)
            continue
        rec.count("oracle_evals")
        rec.count("single_observation_changes")
        if r == solo:
            rec.count("single_observation_changes_of_a_cell_lines_only_experiment")
        # The block with a constant design: the row's own sample effect is conditioned on
        # it in the very first sweep (SparseDrugCombo; the intercept is the mean residual, so a block that covers
        # EVERY training row sees no change and is left out). The interaction model starts from zero embeddings, the
        # sample embedding is conditioned on the row from the second sweep on.
        th0, th1, scr = base[1], other[1], base[2]
        sub_ids = np.asarray(scr.sample_ids)[obs_rows]
        sub_t = np.asarray(scr.treatment_ids)[obs_rows]
        c = int(scr.sample_ids[r])
        dd = [int(x) for x in scr.treatment_ids[r]]
        blocks = []
        if mname == "SparseDrugCombo":
            if int((sub_ids == c).sum()) < len(obs_rows):
                blocks.append(("W0[its sample] after the first sweep", th0.W0[c], th1.W0[c]))
        elif is_combo[r]:
            blocks.append(("W[its sample] after the second sweep", base[3].W[c], other[3].W[c]))
        deaf = [name for name, a_, b_ in blocks if np.array_equal(np.asarray(a_), np.asarray(b_))]
        rec.count("own_parameter_blocks_compared", len(blocks))
        rec.check(not deaf, "C04/%s/observed-experiment-has-no-influence" % mname, lambda: "%s: changing the result of observed experiment %d (sample %r, %r, row %d of those handed to the model) from %r to %r leaves %s bit-identical with the same seed: these parameters were not conditioned on the experiment" % (mname, r, str(kw["sample_names"][r]), tn[r].tolist(), int(np.searchsorted(obs_rows, r)) + 1, float(kw["observations"][r]), float(o[r]), ", ".join(deaf)), dict(w, row=r, samples=kw["sample_names"].tolist()[:12]))
        base_b, other = base[0], other[0]
        rec.check(other != base_b, "C04/%s/observed-experiment-has-no-influence" % mname, lambda: "%s: changing the result of observed experiment %d (sample %r, %r, the %s row handed to the model) from %r to %r leaves every posterior sample bit-identical: the experiment is not part of what the model was trained on" % (mname, r, str(kw["sample_names"][r]), tn[r].tolist(), "first" if r == int(obs_rows[0]) else "%d-th" % (int(np.searchsorted(obs_rows, r)) + 1), float(kw["observations"][r]), float(o[r])), dict(w, row=r, samples=kw["sample_names"].tolist()[:12]))


def numeric_state(obj):
    out = {}
    for k, v in vars(obj).items():
        if isinstance(v, np.ndarray):
            out[k] = v.copy()
        elif isinstance(v, (int, float, np.floating, np.integer)) and not isinstance(v, bool):
            out[k] = v
    return out


def two_batches(rec, rng, cls, mname, screen, w):
    from batchie.data import ExperimentSpace

    sub = screen.subset_observed()
    if sub is None or sub.size < 2:
        return
    first = rng.random(sub.size) < 0.5
    if mname == "SparseDrugComboInteraction":
        # its single-effect table is built per batch: keep every single-agent row in the first batch
        tids = np.asarray(sub.treatment_ids)
        first = first | (tids == -1).any(axis=1)
    if first.all() or not first.any():
        return
    b1, b2 = sub.subset(first), sub.subset(~first)
    sp = ExperimentSpace.from_screen(screen)
    D = int(rng.integers(1, 3))
    try:
        a = cls(experiment_space=sp, n_embedding_dimensions=D)
        a.set_rng(np.random.default_rng(5))
        a.add_observations(b1)
        for _ in range(int(rng.integers(1, 4))):
            a.step()
        a.add_observations(b2)
        b = cls(experiment_space=sp, n_embedding_dimensions=D)
        b.add_observations(b1)
        b.add_observations(b2)
    except Exception as e:
        rec.did_not_return("two-batches-" + mname, e)
        return
    for k, v in numeric_state(a.wrapped_model).items():
        setattr(b.wrapped_model, k, v.copy() if isinstance(v, np.ndarray) else v)
    s0 = int(rng.integers(0, 2**31))
    a.set_rng(np.random.default_rng(s0))
    b.set_rng(np.random.default_rng(s0))
    rec.case(("two-batches", mname, kit.array_hash(screen.observations), int(first.sum())), nontrivial=True)
    rec.count("two_batch_histories")
    rec.count("oracle_evals")
    try:
        for _ in range(2):
            a.step()
            b.step()
        ta, tb = a.get_model_state(), b.get_model_state()
    except Exception as e:
        rec.violation("C04/%s/step-after-second-batch-raises" % mname, "stepping after a second add_observations raised %r" % (e,), w)
        return
    same = all((kit.bytes_equal(np.asarray(va), np.asarray(tb.private_parameters_dict()[k])) if isinstance(va, np.ndarray) else float(va) == float(tb.private_parameters_dict()[k])) for k, va in ta.private_parameters_dict().items() if not isinstance(va, dict))
    rec.check(same and int(a.n_obs()) == int(b.n_obs()), "C04/%s/second-batch-not-used-like-the-first" % mname, "%s: a model that received its observations in two batches (steps in between) continues differently from a fresh model holding the same %d observations, the same sampler state and the same generator" % (mname, int(b.n_obs())), dict(w, first_batch_rows=int(first.sum()), second_batch_rows=int((~first).sum())))


def cli_pairs(rec, rng, shard, n=6, seed=0):
    """the four CLI mains in-process on files of a pair of screens"""
    from batchie.data import Screen
    from batchie.core import BayesianModel
    from batchie.cli import train_model, calculate_distance_matrix, calculate_scores, select_next_plate
    from .c18 import file_fp

    with kit.scratch_dir("vf-c04-") as tmp:
        for ci in range(n):
            kw = None
            for _ in range(8):
                kw = gen_pair_screen(rng, for_interaction=False)
                if kw is not None:
                    break
            if kw is None:
                continue
            kind = REPLACEMENTS[(shard + ci + seed) % len(REPLACEMENTS)]
            kwB = dict(kw, observations=replace_masked(rng, kw["observations"], kw["observation_mask"], kind))
            rec.count("cli_replacement_" + kind)
            outs = {}
            handed = {}
            for tag, k_ in (("A", kw), ("B", kwB)):
                s = Screen(**k_)
                o = lambda n: os.path.join(tmp, "%s_%d_%s" % (tag, ci, n))
                if ci % 2 == 0:
                    # the path has a past: the fully observed source screen was stored under this very name and read
                    # (a retrospective study starts from it) before the masked training screen replaced it
                    try:
                        Screen(**dict(kw, observation_mask=np.ones(len(kw["observations"]), dtype=bool))).save_h5(o("s.h5"))
                        Screen.load_h5(o("s.h5"))
                        Screen.load_h5(str(o("s.h5")))
                        rec.count("cli_pipelines_on_a_path_that_held_the_unmasked_screen_before")
                    except Exception as e:
                        rec.did_not_return("cli-path-with-a-past", e)
                s.save_h5(o("s.h5"))
                seen = []
                with kit.Patches() as P:
                    def mk(orig):
                        def add_observations(self, data):
                            seen.append(sorted(float(x).hex() for x in np.asarray(data.observations)))
                            return orig(self, data)

                        return add_observations

                    P.wrap(BayesianModel, "add_observations", mk)
                    try:
                        kit.run_cli(train_model.main, ["--data", o("s.h5"), "--model", "SparseDrugCombo", "--model-param", "n_embedding_dimensions=2", "--output", o("t.h5"), "--n-samples", 4, "--n-burnin", 1, "--thin", 1, "--seed", 5])
                        kit.run_cli(calculate_distance_matrix.main, ["--data", o("s.h5"), "--thetas", o("t.h5"), "--distance-metric", "MSEDistance", "--n-chunks", 1, "--chunk-index", 0, "--output", o("d.h5")])
                        kit.run_cli(calculate_scores.main, ["--data", o("s.h5"), "--thetas", o("t.h5"), "--distance-matrix", o("d.h5"), "--scorer", "GaussianDBALScorer", "--output", o("sc.h5"), "--seed", 2])
                        kit.run_cli(select_next_plate.main, ["--data", o("s.h5"), "--scores", o("sc.h5"), "--output", o("sel"), "--seed", 2])
                    except Exception as e:
                        if tag == "A":
                            rec.did_not_return("cli-pipeline", e)
                            outs = None
                            break
                        rec.violation("C04/pipeline/masked-values-change-outcome", "CLI pipeline returned on screen A but raised %r on B (%s)" % (e, kind), {"replacement": kind})
                        outs = None
                        break
                handed[tag] = seen
                outs[tag] = [file_fp(o(n)) for n in ("t.h5", "d.h5", "sc.h5", "sel")]
            if not outs:
                continue
            rec.case(("cli", kit.array_hash(kw["observations"]), kind, shard))
            rec.count("pairs_compared")
            rec.count("cli_pairs")
            w = {"via": "cli", "replacement": kind}
            expect = sorted(float(x).hex() for x in kw["observations"][kw["observation_mask"]])
            rec.check(handed["A"] == [expect] and handed["B"] == [expect], "C04/SparseDrugCombo/training-rows-differ", "train_model handed the model other observations than exactly the observed ones", w)
            for name, a, b in zip(("thetas", "distance", "scores", "selected"), outs["A"], outs["B"]):
                rec.count("artefacts_compared")
                rec.check(a == b, "C04/differential/%s-depends-on-masked-values" % name, "CLI %s file differs between two screens that differ only behind the mask (%s)" % (name, kind), w)
