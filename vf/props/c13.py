"""C13 - generated, smoothed and initial plates satisfy their documented shape guarantees."""
import heapq
import math

import numpy as np

from .. import kit, gen
from . import retro_common as RC

PROP, NUM = "C13", 13
LEVEL = "exploration"
SHARDS = {"quick": 8, "thorough": 16}
TIMEOUT = {"quick": 900, "thorough": 5400}
RULE = (
    "post-conditions per operation on the returned screen: SampleSegregating / Pairwise (single-sample unobserved plates, "
    "size limit), SparseCover (every sample and treatment observed, one unobserved rest plate), combination filter, "
    "FixedSize / OptimalSize (one common size, optimum attained), NPlatePerCellLine (no surviving sample under the "
    "threshold), MergeMin (greedy reference on per-sample size lists, unions of whole same-sample plates), MergeTopBottom "
    "(ceil-halving per iteration); screens emphasise several samples with few experiments, samples with exactly the "
    "size limit, single-agent rows, one plate, ties in plate sizes. A case is one operation on one screen; distinct = "
    "(operation, parameters, screen hash); raising = did not return; non-trivial = returned and input has >=2 unobserved plates or >=2 samples"
)
ASSUMPTIONS = ["NPlatePerCellLine: 'no sample' is read as no sample that still has unobserved experiments in the output (the observed part passes through, C11)"]
REQUIRED = {"objects_applied_to_another_screen_before": {"quick": 150, "thorough": 2500}, "smoother_objects_that_refused_a_screen_before": {"quick": 20, "thorough": 400}, "combo_filter_combination_free_cases": {"quick": 8, "thorough": 200}, "cli_shape_runs": {"quick": 12, "thorough": 120}, "returned_SampleSegregating": {"quick": 150, "thorough": 3000}, "returned_Pairwise": {"quick": 40, "thorough": 1000}, "returned_MergeMin": {"quick": 60, "thorough": 1500}, "returned_MergeTopBottom": {"quick": 60, "thorough": 1500}, "returned_FixedSize": {"quick": 80, "thorough": 2000}, "returned_OptimalSize": {"quick": 80, "thorough": 2000}, "returned_NPlatePerCellLine": {"quick": 60, "thorough": 1500}, "returned_SparseCover": {"quick": 80, "thorough": 2000}, "returned_combo_filter": {"quick": 80, "thorough": 2000}}
N_OPS = {"quick": 4800, "thorough": 64000}


def unobs_plates(s):
    """dict plate name -> (tags, samples) for unobserved plates"""
    out = {}
    for p in np.unique(s.plate_names):
        sel = s.plate_names == p
        if not s.observation_mask[sel].any():
            out[str(p)] = ([float(x) for x in s.observations[sel]], sorted(set(str(x) for x in s.sample_names[sel])))
    return out


def per_sample_sizes(plates):
    d = {}
    for tags, samples in plates.values():
        for smp in samples:
            d.setdefault(smp, []).append(len(tags))
    return {k: sorted(v) for k, v in d.items()}


def merge_min_reference(sizes, min_size):
    h = list(sizes)
    heapq.heapify(h)
    while len(h) > 1:
        a = heapq.heappop(h)
        b = heapq.heappop(h)
        if a + b > min_size:
            heapq.heappush(h, a)
            heapq.heappush(h, b)
            break
        heapq.heappush(h, a + b)
    return sorted(h)


def unions_of_whole_same_sample_plates(rec, name, params, pin, pout, w):
    tag_to_in = {}
    for p, (tags, _s) in pin.items():
        for t in tags:
            tag_to_in[t] = p
    where = {}
    multi = []
    for p, (tags, samples) in pout.items():
        if len(samples) > 1:
            multi.append(p)
        for t in tags:
            ip = tag_to_in.get(t)
            if ip is not None:
                where.setdefault(ip, set()).add(p)
    split = [ip for ip, outs in where.items() if len(outs) > 1]
    rec.check(not multi, "C13/%s/merged-different-samples" % name, lambda: "%s%r: output plates %r hold more than one sample" % (name, params, multi), w)
    rec.check(not split, "C13/%s/split-an-input-plate" % name, lambda: "%s%r: input plates %r were split over several output plates" % (name, params, split), w)


def check_op(rec, name, params, inp, out, w):
    params = {k: (int(np.asarray(v).ravel()[0]) if isinstance(v, (np.ndarray, np.integer)) else v) for k, v in params.items()}
    pin, pout = unobs_plates(inp), unobs_plates(out)
    if name == "SampleSegregating":
        bad = {p: v[1] for p, v in pout.items() if len(v[1]) != 1}
        rec.check(not bad, "C13/SampleSegregating/multi-sample-plate", lambda: "max_plate_size=%d: unobserved plates with several samples: %r" % (params["max_plate_size"], bad), w)
        big = {p: len(v[0]) for p, v in pout.items() if len(v[0]) > params["max_plate_size"]}
        rec.check(not big, "C13/SampleSegregating/plate-over-size-limit", lambda: "max_plate_size=%d: plate sizes %r" % (params["max_plate_size"], big), w)
    elif name == "Pairwise":
        bad = {p: v[1] for p, v in pout.items() if len(v[1]) != 1}
        rec.check(not bad, "C13/Pairwise/multi-sample-plate", lambda: "unobserved plates with several samples: %r" % bad, w)
    elif name in ("FixedSize", "OptimalSize"):
        sizes = sorted(len(v[0]) for v in pout.values())
        rec.check(len(set(sizes)) <= 1, "C13/%s/sizes-not-common" % name, lambda: "%s%r: unobserved plate sizes %r" % (name, params, sizes), w)
        in_sizes = sorted(len(v[0]) for v in pin.values())
        if name == "FixedSize":
            want_n = sum(1 for s in in_sizes if s >= params["plate_size"])
            rec.check(len(sizes) == want_n and all(s == params["plate_size"] for s in sizes), "C13/FixedSize/wrong-size-or-count", lambda: "plate_size=%d, input sizes %r -> output sizes %r" % (params["plate_size"], in_sizes, sizes), w)
        else:
            best = max(s * sum(1 for t in in_sizes if t >= s) for s in in_sizes) if in_sizes else 0
            kept = sum(sizes)
            rec.check(kept == best, "C13/OptimalSize/not-optimal", lambda: "input sizes %r: kept %d experiments in plates %r, the best common size keeps %d" % (in_sizes, kept, sizes, best), w)
    elif name == "NPlatePerCellLine":
        cnt = {}
        for tags, samples in pout.values():
            for smp in samples:
                cnt[smp] = cnt.get(smp, 0) + 1
        low = {s_: c for s_, c in cnt.items() if c < params["min_n_cell_line_plates"]}
        rec.check(not low, "C13/NPlatePerCellLine/sample-under-threshold-survives", lambda: "min_n=%d: surviving samples with fewer unobserved plates: %r (input per-sample plate counts %r)" % (params["min_n_cell_line_plates"], low, {k: len(v) for k, v in per_sample_sizes(pin).items()}), w)
        cin = {k: len(v) for k, v in per_sample_sizes(pin).items()}
        dropped_ok = [s_ for s_, c in cin.items() if c >= params["min_n_cell_line_plates"] and s_ not in cnt]
        rec.check(not dropped_ok, "C13/NPlatePerCellLine/sample-at-threshold-dropped", lambda: "min_n=%d: samples %r had enough plates but were dropped" % (params["min_n_cell_line_plates"], dropped_ok), w)
    elif name == "MergeMin":
        unions_of_whole_same_sample_plates(rec, name, params, pin, pout, w)
        sin, sout = per_sample_sizes(pin), per_sample_sizes(pout)
        for smp, sizes in sin.items():
            ref = merge_min_reference(sizes, params["min_size"])
            rec.check(sout.get(smp) == ref, "C13/MergeMin/not-the-greedy-result", lambda: "min_size=%d sample %r: input sizes %r -> %r, greedy reference %r" % (params["min_size"], smp, sizes, sout.get(smp), ref), w)
    elif name == "MergeTopBottom":
        unions_of_whole_same_sample_plates(rec, name, params, pin, pout, w)
        sin, sout = per_sample_sizes(pin), per_sample_sizes(pout)
        for smp, sizes in sin.items():
            n = len(sizes)
            for _ in range(params["n_iterations"]):
                if n <= 1:
                    break
                n = math.ceil(n / 2)
            rec.check(len(sout.get(smp, [])) == n, "C13/MergeTopBottom/wrong-plate-count", lambda: "n_iterations=%d sample %r: %d plates -> %d, expected %d" % (params["n_iterations"], smp, len(sizes), len(sout.get(smp, [])), n), w)
            rec.check(sum(sout.get(smp, [])) == sum(sizes), "C13/MergeTopBottom/experiments-lost", "sample %r lost experiments" % smp, w)


def cli_shapes(rec, tier, rng):
    """The same guarantees when generator / smoother and their parameters are given on the command line of
    prepare_retrospective_simulation (string parameters cast by annotation, hold-out fraction 0 so that the training
    file is the prepared screen)."""
    import os
    from batchie.data import Screen
    from batchie.cli import prepare_retrospective_simulation as cli

    variants = ["segregating", "pairwise", "fixed", "nplate", "sparse-cover"]
    with kit.scratch_dir("vf-c13-") as tmp:
        for ci in range({"quick": 3, "thorough": 15}[tier]):
            kw, _fl = RC.retro_screen_kwargs(rng)
            kw = dict(kw, observation_mask=np.ones(len(kw["plate_names"]), dtype=bool))
            f_in, f_tr, f_te = (os.path.join(tmp, x) for x in ("in.h5", "train.h5", "test.h5"))
            try:
                Screen(**kw).save_h5(f_in)
            except Exception as e:
                rec.did_not_return("cli-construct", e)
                continue
            v = variants[int(rng.integers(len(variants)))]
            argv = ["--data", f_in, "--training-output", f_tr, "--test-output", f_te, "--holdout-fraction", "0", "--seed", int(rng.integers(0, 1000))]
            params = {}
            if v == "segregating":
                params = {"max_plate_size": int(rng.integers(1, 9))}
                argv += ["--plate-generator", "SampleSegregatingPermutationPlateGenerator", "--plate-generator-param", "max_plate_size=%d" % params["max_plate_size"]]
            elif v == "pairwise":
                params = {"subset_size": int(rng.integers(1, 4)), "anchor_size": int(rng.integers(0, 3))}
                argv += ["--plate-generator", "PairwisePlateGenerator", "--plate-generator-param", "subset_size=%d" % params["subset_size"], "--plate-generator-param", "anchor_size=%d" % params["anchor_size"]]
            elif v == "fixed":
                params = {"plate_size": int(rng.integers(1, 7))}
                argv += ["--plate-smoother", "FixedSizeSmoother", "--plate-smoother-param", "plate_size=%d" % params["plate_size"]]
            elif v == "nplate":
                params = {"min_n_cell_line_plates": int(rng.integers(1, 4))}
                argv += ["--plate-smoother", "NPlatePerCellLineSmoother", "--plate-smoother-param", "min_n_cell_line_plates=%d" % params["min_n_cell_line_plates"]]
            else:
                params = {"reveal_single_treatment_experiments": bool(rng.random() < 0.5)}
                argv += ["--initial-plate-generator", "SparseCoverPlateGenerator", "--initial-plate-generator-param", "reveal_single_treatment_experiments=%s" % str(rng.choice(["true", "yes", "1"] if params["reveal_single_treatment_experiments"] else ["false", "no", "0"]))]
            w = {"via": "prepare_retrospective_simulation", "variant": v, "params": params}
            try:
                kit.run_cli(cli.main, argv)
                out = Screen.load_h5(f_tr)
            except Exception as e:
                rec.did_not_return("cli-" + v, e)
                continue
            rec.count("cli_shape_runs")
            rec.count("cli_shape_" + v)
            rec.case(("cli", v, repr(sorted(params.items())), kit.array_hash(kw["observations"])), nontrivial=True)
            pout = unobs_plates(out)
            if v == "segregating":
                check_op(rec, "SampleSegregating", params, out, out, w)
            elif v == "pairwise":
                check_op(rec, "Pairwise", params, out, out, w)
            elif v == "fixed":
                sizes = sorted(len(t[0]) for t in pout.values())
                rec.check(all(x == params["plate_size"] for x in sizes), "C13/FixedSize/wrong-size-or-count", lambda: "--plate-smoother-param plate_size=%d: unobserved plate sizes in the training file %r" % (params["plate_size"], sizes), w)
            elif v == "nplate":
                cnt = {}
                for tags, samples in pout.values():
                    for smp in samples:
                        cnt[smp] = cnt.get(smp, 0) + 1
                low = {s_: c for s_, c in cnt.items() if c < params["min_n_cell_line_plates"]}
                rec.check(not low, "C13/NPlatePerCellLine/sample-under-threshold-survives", lambda: "--plate-smoother-param min_n_cell_line_plates=%d: samples with fewer unobserved plates in the training file: %r" % (params["min_n_cell_line_plates"], low), w)
            else:
                obs = np.asarray(out.observation_mask)
                miss_s = sorted(set(str(x) for x in out.sample_names) - set(str(x) for x in out.sample_names[obs]))
                rec.check(not miss_s, "C13/SparseCover/sample-not-covered", lambda: "samples %r have no observed experiment in the training file" % miss_s, w)
                tids = np.asarray(out.treatment_ids)
                all_t = set(int(x) for x in tids.ravel()) - {-1}
                cov_t = set(int(x) for x in tids[obs].ravel()) - {-1}
                rec.check(all_t <= cov_t, "C13/SparseCover/treatment-not-covered", lambda: "treatment ids %r have no observed experiment in the training file" % sorted(all_t - cov_t), w)
                rec.check(len(set(str(x) for x in out.plate_names[~obs])) <= 1, "C13/SparseCover/rest-not-one-plate", "unobserved rest spread over several plates", w)
                if params["reveal_single_treatment_experiments"]:
                    single = (tids == -1).any(axis=1)
                    rec.check(bool(obs[single].all()), "C13/SparseCover/single-agent-not-revealed", "single-agent experiments not all revealed although the command line asked for it", w)


def run_shard(rec, tier, seed, shard, nshards):
    from batchie.data import Screen, filter_dataset_to_treatments_that_appear_in_at_least_one_combo
    from batchie import retrospective as R

    rng = kit.rng_for(seed, NUM, shard)
    n_ops = N_OPS[tier] // nshards
    ops = ["SampleSegregating", "SampleSegregating", "Pairwise", "Pairwise", "MergeMin", "MergeTopBottom", "FixedSize", "OptimalSize", "NPlatePerCellLine", "NPlatePerCellLine", "SparseCover", "combo_filter"]
    for oi in range(n_ops):
        name = ops[oi % len(ops)]
        if name in ("MergeMin", "MergeTopBottom", "NPlatePerCellLine"):
            flavour = str(rng.choice(["per_sample", "few_per_sample"]))
        elif name == "Pairwise":
            flavour = str(rng.choice(["combo_only", "mixed", "per_sample"]))
        else:
            flavour = None
        kw, flavour = RC.retro_screen_kwargs(rng, flavour)
        if name == "combo_filter" and rng.random() < 0.5:
            kw = gen.realistic_screen_kwargs(rng, n_samples=(1, 3), n_drugs=(3, 6), n_doses=(1, 2), n_rows=(4, 40), n_plates=(1, 4), p_single=0.2, p_dup=0.1, p_double_control=0.05, observed="none", arity=3)
            flavour = "arity3"
            rec.count("combo_filter_arity3_cases")
        if name == "combo_filter" and rng.random() < 0.2:
            # degenerate but legal: no experiment is a full combination (single agents only, with or without vehicle
            # wells; three columns holding pairs at most) - then no treatment occurs in a full combination
            c = kw["control_treatment_name"]
            tn, td = kw["treatment_names"].astype(object), kw["treatment_doses"].copy()
            for i in range(len(tn)):
                full = all(str(x) != c for x in tn[i]) and bool((td[i] > 0).all())
                if full:
                    j = int(rng.integers(tn.shape[1]))
                    if rng.random() < 0.5:
                        tn[i, j] = c
                    td[i, j] = 0.0
            kw["treatment_names"], kw["treatment_doses"] = tn.astype(str), td
            flavour += "-no-full-combination"
            rec.count("combo_filter_combination_free_cases")
        if name in ("MergeMin", "MergeTopBottom", "NPlatePerCellLine") and flavour.startswith("few_per_sample"):
            kw, flavour = RC.retro_screen_kwargs(rng, "per_sample")
        if name == "SparseCover":
            kw.pop("observation_mask", None)
        screen = Screen(**kw)
        shash = kit.array_hash(screen.observations) + kit.array_hash(screen.plate_names)
        w = {"op": name, "flavour": flavour, "rows": int(screen.size), "plates": {str(p): [int((screen.plate_names == p).sum()), bool(screen.observation_mask[screen.plate_names == p][0]), sorted(set(str(x) for x in screen.sample_names[screen.plate_names == p]))] for p in np.unique(screen.plate_names)}}
        if name == "SparseCover":
            params = dict(reveal_single_treatment_experiments=bool(rng.random() < 0.5))
            g = R.SparseCoverPlateGenerator(**params)
            ok, out = kit.returns(rec, name, g.generate_and_unmask_initial_plate, screen, np.random.default_rng(int(rng.integers(0, 2**31))))
            rec.case((name, repr(params), shash), nontrivial=ok and screen.size >= 3)
            if not ok:
                continue
            rec.count("returned_SparseCover")
            w["params"] = params
            obs = np.asarray(out.observation_mask)
            rec.check(out.size == screen.size and gen.rows_multiset(out) == gen.rows_multiset(screen), "C13/SparseCover/rows-not-conserved", "initial plate generation changed the rows", w)
            miss_s = sorted(set(str(x) for x in out.sample_names) - set(str(x) for x in out.sample_names[obs]))
            rec.check(not miss_s, "C13/SparseCover/sample-not-covered", lambda: "samples %r have no observed experiment" % miss_s, w)
            tids = np.asarray(out.treatment_ids)
            all_t = set(int(x) for x in tids.ravel()) - {-1}
            cov_t = set(int(x) for x in tids[obs].ravel()) - {-1}
            rec.check(all_t <= cov_t, "C13/SparseCover/treatment-not-covered", lambda: "treatment ids %r have no observed experiment" % sorted(all_t - cov_t), w)
            un = set(str(x) for x in out.plate_names[~obs])
            rec.check(len(un) <= 1, "C13/SparseCover/rest-not-one-plate", lambda: "unobserved rest spread over plates %r" % sorted(un), w)
            if params["reveal_single_treatment_experiments"]:
                single = (tids == -1).any(axis=1)
                rec.check(bool(obs[single].all()), "C13/SparseCover/single-agent-not-revealed", "single-agent experiments not all revealed", w)
            continue
        if name == "combo_filter":
            ok, out = kit.returns(rec, name, filter_dataset_to_treatments_that_appear_in_at_least_one_combo, screen)
            rec.case((name, shash), nontrivial=ok and screen.size >= 3)
            if not ok:
                continue
            rec.count("returned_combo_filter")
            tids = np.asarray(screen.treatment_ids)
            full = ~(tids == -1).any(axis=1)
            in_combo = set(int(x) for x in tids[full].ravel())
            keep = np.array([all((int(t) == -1) or (int(t) in in_combo) for t in row) for row in tids], dtype=bool)
            want = sorted(float(x) for x in screen.observations[keep])
            got = sorted(float(x) for x in out.observations)
            rec.check(want == got, "C13/combo-filter/wrong-rows-kept", lambda: "kept %d rows, reference keeps %d" % (len(got), len(want)), w)
            rec.check(gen.rows_multiset(out) == gen.rows_multiset(screen.subset(keep).to_screen()) if keep.any() else out.size == 0, "C13/combo-filter/rows-altered", "filter altered rows", w)
            continue
        kind, name, params, fn = RC.make_operation(rng, R, screen, only=name)
        w["params"] = params
        g = np.random.default_rng(int(rng.integers(0, 2**31)))
        if rng.random() < 0.3:
            g.random(int(rng.integers(1, 30)))
        if name in ("MergeMin", "MergeTopBottom", "NPlatePerCellLine", "FixedSize", "OptimalSize", "BatchieEnsemble") and rng.random() < 0.3 and "observation_mask" in kw and len(set(kw["sample_names"].tolist())) >= 2:
            # a smoother object with a past: it was first handed a screen it refuses (the same plates, but one
            # unobserved plate carries a row of another sample), the caller caught that and goes on with the good screen
            try:
                un_rows = np.flatnonzero(~np.asarray(kw["observation_mask"], dtype=bool))
                if len(un_rows):
                    r_ = int(rng.choice(un_rows))
                    others_ = [x for x in sorted(set(kw["sample_names"].tolist())) if x != kw["sample_names"][r_]]
                    sn_bad = kw["sample_names"].copy()
                    sn_bad[r_] = others_[int(rng.integers(len(others_)))]
                    bad_screen = Screen(**dict(kw, sample_names=sn_bad))
                    try:
                        fn(bad_screen, np.random.default_rng(0))
                        rec.count("smoother_objects_first_used_on_another_screen")
                    except Exception:
                        rec.count("smoother_objects_that_refused_a_screen_before")
            except Exception as e:
                rec.did_not_return("object-with-a-past-setup", e)
        if rng.random() < 0.35:
            # a long-lived generator / smoother object in a loop over data sets: it has already been applied to one or
            # two OTHER screens (other sizes, other optima); what it guarantees for this screen is the same
            for _ in range(int(rng.integers(1, 3))):
                try:
                    fn(Screen(**RC.retro_screen_kwargs(rng)[0]), np.random.default_rng(int(rng.integers(0, 2**31))))
                    rec.count("objects_applied_to_another_screen_before")
                except Exception:
                    rec.count("objects_that_refused_another_screen_before")
        before_fp = RC.screen_fingerprint(kit, screen)
        ok, out = kit.returns(rec, name, fn, screen, g)
        rec.check(RC.screen_fingerprint(kit, screen) == before_fp, "C13/input/mutated", "%s%r mutated its input screen" % (name, params), w)
        nun = sum(1 for v in w["plates"].values() if not v[1])
        rec.case((name, repr(sorted(params.items())), shash), nontrivial=ok and (nun >= 2 or len(set(str(x) for x in screen.sample_names)) >= 2))
        if not ok:
            continue
        rec.count("returned_" + name)
        check_op(rec, name, params, screen, out, w)
        if oi < 12 and shard == 0:
            rec.sample({"op": name, "params": params, "input_unobserved_plate_sizes": sorted(len(v[0]) for v in unobs_plates(screen).values()), "output_unobserved_plate_sizes": sorted(len(v[0]) for v in unobs_plates(out).values())})
    cli_shapes(rec, tier, rng)
