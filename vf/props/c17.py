"""C17 - sampling follows the burn-in/thinning schedule; each chain gets its own stream."""
import numpy as np

from .. import kit, gen

PROP, NUM = "C17", 17
LEVEL = "exploration"
SHARDS = {"quick": 8, "thorough": 16}
TIMEOUT = {"quick": 900, "thorough": 5400}
RULE = (
    "schedule: every (burn-in b, thin t, count n) of the grid b<=B, t<=T, n<=N run through sampling.sample with a "
    "step-counting harness model whose exported state is tagged with the step counter (the recorded steps are read off "
    "the result), plus the real SparseDrugCombo with counting wrappers; large counts (burn-in up to 3000, sample counts up to 4097 for the variational stub) on top of the grid; streams: generator handed to set_rng captured "
    "per (seed, n_chains, chain_index), bit-generator state and first 4096 outputs compared; VI stub. A case is one "
    "sample() call; distinct = its (kind,b,t,n,seed,n_chains,chain) tuple; non-trivial = t>1 or b>0 or n_chains>1"
)
ASSUMPTIONS = ["non-overlap of streams is decided on the first 4096 64-bit outputs of each stream (no shared value, no shared window)"]
REQUIRED = {"large_schedules_with_thin_above_256": {"quick": 4, "thorough": 16}, "schedules_given_as_numpy_integers": {"quick": 30, "thorough": 400}, "schedules_on_a_model_with_both_base_classes": {"quick": 20, "thorough": 300}, "schedules_called_with_positional_arguments": {"quick": 40, "thorough": 600}, "cli_streams_checked": {"quick": 16, "thorough": 100}, "resets_compared_with_untouched_model": {"quick": 40, "thorough": 250}, "recorded_samples_rechecked": {"quick": 150, "thorough": 900}, "cli_schedules_checked": {"quick": 24, "thorough": 300}, "cli_schedules_with_zero_burnin": {"quick": 12, "thorough": 150}, "captures_at_log_level_DEBUG": {"quick": 30, "thorough": 150}, "schedules_checked": {"quick": 500, "thorough": 2000}, "stream_pairs_checked": {"quick": 200, "thorough": 2000}, "vi_checked": {"quick": 40, "thorough": 250}}
GRID = {"quick": (12, 5, 8), "thorough": (24, 7, 12)}


def theta_bytes(th):
    """every parameter of a posterior sample, by value"""
    d = th.private_parameters_dict()
    return sorted((k, kit.raw_bytes(np.asarray(v))) for k, v in d.items())


def run_shard(rec, tier, seed, shard, nshards):
    from batchie import sampling
    from batchie.core import MCMCModel, VIModel, BayesianModel, ThetaHolder, Theta
    from batchie.data import Screen, ExperimentSpace
    from batchie.models.sparse_combo import SparseDrugCombo

    rng = kit.rng_for(seed, NUM, shard)

    class Tag(Theta):
        def __init__(self, step):
            self.step = step

    class CountingModel(BayesianModel, MCMCModel):
        def __init__(self):
            self.steps = 0
            self.log = []
            self._rng = None

        def reset_model(self):
            self.log.append(("reset", self.steps))
            self.steps = 0

        def set_rng(self, rng):
            self.log.append(("set_rng", self.steps))
            self._rng = rng

        @property
        def rng(self):
            return self._rng

        def step(self):
            self.steps += 1
            self.log.append(("step", self.steps))

        def get_model_state(self):
            self.log.append(("state", self.steps))
            return Tag(self.steps)

        def _add_observations(self, data):
            pass

        def n_obs(self):
            return 0

    class VIStub(BayesianModel, VIModel):
        def __init__(self):
            self.calls = []
            self.log = []

        def reset_model(self):
            self.log.append("reset")

        def set_rng(self, rng):
            self.log.append("set_rng")
            self._rng = rng

        @property
        def rng(self):
            return self._rng

        def sample(self, num_samples):
            self.calls.append(num_samples)
            return [Tag(i) for i in range(num_samples)]

        def _add_observations(self, data):
            pass

        def n_obs(self):
            return 0

    def check_schedule(kind, model_log, tags, b, t, n, holder, w):
        want = [b + t * (i + 1) for i in range(n)]
        rec.count("schedules_checked")
        rec.check(list(tags) == want, "C17/schedule/wrong-steps-recorded", lambda: "recorded after steps %r, expected %r (b=%d,t=%d,n=%d,%s)" % (list(tags), want, b, t, n, kind), w)
        steps = [x for x in model_log if x[0] == "step"]
        rec.check(len(steps) == b + n * t, "C17/schedule/wrong-total-steps", lambda: "%d steps taken, expected %d (b=%d,t=%d,n=%d,%s)" % (len(steps), b + n * t, b, t, n, kind), w)
        first_step = next((i for i, x in enumerate(model_log) if x[0] == "step"), len(model_log))
        pre = [x[0] for x in model_log[:first_step]]
        rec.check("reset" in pre, "C17/schedule/no-reset-before-first-step", lambda: "events before first step: %r" % pre, w)
        rec.check("set_rng" in pre, "C17/schedule/no-set_rng-before-first-step", lambda: "events before first step: %r" % pre, w)
        rec.check(not any(x[0] == "reset" for x in model_log[first_step:]), "C17/schedule/reset-after-start", "model reset after stepping began", w)
        rec.check(bool(holder.is_complete) and len(holder.thetas) == n, "C17/schedule/collection-incomplete", lambda: "collection holds %d of %d" % (len(holder.thetas), n), w)

    # ---------- (a) harness counting model on the full grid (dealt round robin)
    B, T, N = GRID[tier]
    grid = [(b, t, n) for b in range(0, B + 1) for t in range(1, T + 1) for n in range(1, N + 1)]
    for b, t, n in grid[shard::nshards]:
        m = CountingModel()
        holder = ThetaHolder(n_thetas=n)
        sd = int(rng.choice([0, 1, 2**31, int(rng.integers(0, 2**32))]))
        nch = int(rng.integers(1, 7))
        ci = int(rng.integers(0, nch))
        rec.case(("grid", b, t, n), nontrivial=(t > 1 or b > 0))
        w = {"b": b, "t": t, "n": n, "seed": sd, "n_chains": nch, "chain_index": ci}
        try:
            if rng.random() < 0.15:
                # a user's model that is an MCMC model AND offers a direct sample(n) (both base classes): asked with a
                # schedule, it is stepped through that schedule like every MCMC model
                from batchie.core import VIModel as _VI

                m = type("CountingModelWithDirectSampling", (CountingModel, _VI), {"sample": lambda self, num_samples: [Tag(-1) for _ in range(num_samples)]})()
                rec.count("schedules_on_a_model_with_both_base_classes")
            if rng.random() < 0.25:
                # the schedule as numpy integers (read from an array, a table cell, a parsed configuration)
                ity = [np.int64, np.int32, np.uint16, np.intp][int(rng.integers(4))]
                b, t = ity(b), ity(t)
                rec.count("schedules_given_as_numpy_integers")
                w["integer_type"] = ity.__name__
            if rng.random() < 0.3:
                # every argument by position, in the documented order
                res = sampling.sample(m, holder, sd, nch, ci, b, t)
                rec.count("schedules_called_with_positional_arguments")
                w["spelling"] = "positional"
            else:
                res = sampling.sample(m, holder, seed=sd, n_chains=nch, chain_index=ci, n_burnin=b, thin=t)
        except Exception as e:
            rec.violation("C17/schedule/raises", "sample raised %r" % (e,), w)
            continue
        check_schedule("counting-model", m.log, [th.step for th in res.thetas], int(b), int(t), n, res, w)
    for _ in range(3 if tier == "quick" else 12):
        b, t, n = int(rng.choice([0, 1, 255, 256, 257, 1000, 3000])), int(rng.choice([1, 2, 7, 64, 100, 256, 257, 300, 1000])), int(rng.choice([1, 2, 100, 256, 257, 1000]))
        if _ == 0:
            t = int(rng.choice([257, 300, 1000]))  # a thinning interval beyond one byte / CPython's shared small integers
        if t > 256:
            rec.count("large_schedules_with_thin_above_256")
        if (b + n * t) > 120000:
            n = max(1, 120000 // t)
        m = CountingModel()
        rec.case(("grid-large", b, t, n))
        w = {"b": b, "t": t, "n": n, "large": True}
        try:
            res = sampling.sample(m, ThetaHolder(n_thetas=n), seed=1, n_chains=1, chain_index=0, n_burnin=b, thin=t)
        except Exception as e:
            rec.violation("C17/schedule/raises", "sample raised %r" % (e,), w)
            continue
        rec.count("large_schedules_checked")
        check_schedule("counting-model-large", m.log, [th.step for th in res.thetas], b, t, n, res, w)
    if shard == 0:
        m = CountingModel()
        res = sampling.sample(m, ThetaHolder(n_thetas=3), seed=0, n_chains=2, chain_index=1, n_burnin=2, thin=3)
        rec.sample({"kind": "schedule", "b": 2, "t": 3, "n": 3, "recorded_after_steps": [th.step for th in res.thetas], "events_before_first_step": [x[0] for x in m.log[:2]]})

    # ---------- (b) the real SparseDrugCombo with counting wrappers
    n_real = 12 if tier == "quick" else 60
    for _ in range(n_real):
        kw = gen.realistic_screen_kwargs(rng, n_rows=(4, 14), observed="all", p_double_control=0.0)
        screen = Screen(**kw)
        D_real = int(rng.integers(1, 4))
        mkw = {k_: bool(rng.random() < 0.5) for k_ in ("mult_gamma_proc", "local_shrinkage", "fake_intercept", "individual_eff")} if rng.random() < 0.5 else {}
        model = SparseDrugCombo(experiment_space=ExperimentSpace.from_screen(screen), n_embedding_dimensions=D_real, **mkw)
        model.add_observations(screen.subset_observed())
        b, t, n = int(rng.integers(0, 5)), int(rng.integers(1, 4)), int(rng.integers(1, 5))
        # "sampling resets the model": whatever the model went through before - steps, an earlier sampling run with
        # another seed - the recorded samples are those of a model that was never touched
        past = str(rng.choice(["fresh", "stepped", "sampled-before"]))
        try:
            if past == "stepped":
                model.set_rng(np.random.default_rng(int(rng.integers(0, 2**31))))
                for _ in range(int(rng.integers(1, 6))):
                    model.step()
            elif past == "sampled-before":
                sampling.sample(model, ThetaHolder(n_thetas=2), seed=int(rng.integers(0, 1000)) + 5000, n_chains=1, chain_index=0, n_burnin=1, thin=1)
        except Exception as e:
            rec.did_not_return("real-model-past", e)
            continue
        rec.count("real_model_past_" + past)
        log = []
        cnt = {"steps": 0}
        tags = []
        o_step, o_state, o_reset, o_rng = model.step, model.get_model_state, model.reset_model, model.set_rng

        def step():
            cnt["steps"] += 1
            log.append(("step", cnt["steps"]))
            return o_step()

        snaps = []

        def state():
            log.append(("state", cnt["steps"]))
            tags.append(cnt["steps"])
            th_ = o_state()
            snaps.append(theta_bytes(th_))  # what the recorded sample holds at the moment it is recorded
            return th_

        def reset():
            log.append(("reset", cnt["steps"]))
            return o_reset()

        def set_rng(r):
            log.append(("set_rng", cnt["steps"]))
            return o_rng(r)

        model.step, model.get_model_state, model.reset_model, model.set_rng = step, state, reset, set_rng
        holder = ThetaHolder(n_thetas=n)
        rec.case(("real", b, t, n, screen.size))
        w = {"b": b, "t": t, "n": n, "model": "SparseDrugCombo"}
        sd_real, ch_real = int(rng.integers(0, 1000)), int(rng.integers(0, 2))
        w = dict(w, switches=mkw, model_past=past)
        try:
            res = sampling.sample(model, holder, seed=sd_real, n_chains=2, chain_index=ch_real, n_burnin=b, thin=t)
        except Exception as e:
            rec.violation("C17/schedule/raises", "sample raised %r on the real model" % (e,), w)
            continue
        rec.count("real_model_schedules")
        check_schedule("SparseDrugCombo", log, tags, b, t, n, res, w)
        if past != "fresh":
            untouched = SparseDrugCombo(experiment_space=ExperimentSpace.from_screen(screen), n_embedding_dimensions=D_real, **mkw)
            untouched.add_observations(screen.subset_observed())
            ref_res = sampling.sample(untouched, ThetaHolder(n_thetas=n), seed=sd_real, n_chains=2, chain_index=ch_real, n_burnin=b, thin=t)
            rec.count("resets_compared_with_untouched_model")
            differ = [i for i in range(n) if theta_bytes(ref_res.thetas[i]) != snaps[i]]
            rec.check(not differ, "C17/schedule/reset-incomplete", lambda: "a model that was %s before records other samples %r than an untouched model with the same data, switches %r and (seed, chains, chain) - the reset at the start of sampling left something behind" % (past, differ, mkw), w)
        # "records the state after steps b+t, b+2t, ...": a recorded sample is a snapshot; the steps taken after it
        # was recorded must not reach into it
        later = [i for i in range(min(len(snaps), len(res.thetas))) if theta_bytes(res.thetas[i]) != snaps[i]]
        rec.count("recorded_samples_rechecked", len(snaps))
        rec.check(not later, "C17/schedule/recorded-sample-changed-later", lambda: "recorded sample(s) %r no longer hold the values they had when they were recorded (b=%d,t=%d,n=%d): later steps of the sampler changed them" % (later, b, t, n), w)

    # ---------- (b') the same through the train_model command line: the numbers given there are the schedule
    import os
    from batchie.cli import train_model as cli_train

    n_cli = 4 if tier == "quick" else 24
    with kit.scratch_dir("vf-c17-") as tmp, kit.Patches() as P:
        clog = []
        ccnt = {"steps": 0}

        def mk_step(orig):
            def step(self):
                ccnt["steps"] += 1
                clog.append(("step", ccnt["steps"]))
                return orig(self)

            return step

        def mk_state(orig):
            def get_model_state(self):
                clog.append(("state", ccnt["steps"]))
                return orig(self)

            return get_model_state

        def mk_reset(orig):
            def reset_model(self):
                clog.append(("reset", ccnt["steps"]))
                return orig(self)

            return reset_model

        def mk_rng(orig):
            def set_rng(self, r):
                clog.append(("set_rng", ccnt["steps"], repr(r.bit_generator.state)))
                return orig(self, r)

            return set_rng

        P.wrap(SparseDrugCombo, "step", mk_step)
        P.wrap(SparseDrugCombo, "get_model_state", mk_state)
        P.wrap(SparseDrugCombo, "reset_model", mk_reset)
        P.wrap(SparseDrugCombo, "set_rng", mk_rng)
        for ci in range(n_cli):
            kw = gen.realistic_screen_kwargs(rng, n_rows=(4, 14), observed="all", p_double_control=0.0)
            f_s, f_o = os.path.join(tmp, "s.h5"), os.path.join(tmp, "t.h5")
            Screen(**kw).save_h5(f_s)
            # zero is a value like any other on a command line: burn-in 0, seed 0, chain 0
            b = 0 if ci % 2 == 0 else int(rng.integers(0, 5))
            t, n = int(rng.integers(1, 4)), int(rng.integers(1, 5))
            nch = int(rng.integers(1, 4))
            ch = 0 if ci % 3 == 0 else int(rng.integers(nch))
            sd = 0 if ci % 4 == 0 else int(rng.integers(0, 1000))
            if ci % 4 in (1, 3):
                # seeds the way scripts make them: nanosecond clocks, 64-bit values and their neighbours, 128-bit entropy
                sd = [1758000000123456789, 2**53 + 1, 2**63 - 1, 2**64 - 1, 1758000000123456789 + 1, 2**53 + 3, 271828182845904523536028747135266249775][(ci // 2 + int(rng.integers(7))) % 7]
                rec.count("cli_schedules_with_seeds_beyond_2**53")
            del clog[:]
            ccnt["steps"] = 0
            w = {"b": b, "t": t, "n": n, "n_chains": nch, "chain_index": ch, "seed": sd, "via": "train_model"}
            rec.case(("cli", b, t, n, nch, ch, sd))
            try:
                kit.run_cli(cli_train.main, ["--data", f_s, "--model", "SparseDrugCombo", "--model-param", "n_embedding_dimensions=2", "--output", f_o, "--n-samples", n, "--n-burnin", b, "--thin", t, "--n-chains", nch, "--chain-index", ch, "--seed", sd])
                res = ThetaHolder(n_thetas=1).load_h5(f_o)
            except Exception as e:
                rec.violation("C17/schedule/raises", "train_model raised %r" % (e,), w)
                continue
            rec.count("cli_schedules_checked")
            if b == 0:
                rec.count("cli_schedules_with_zero_burnin")
            tags = [x[1] for x in clog if x[0] == "state"]
            check_schedule("train_model-cli", [x[:2] for x in clog], tags, b, t, n, res, w)
            # the stream the command line run draws from is the documented one for (seed, n_chains, chain_index): the
            # generator the library hands a model for the same triple
            ref_m = CountingModel()
            sampling.sample(ref_m, ThetaHolder(n_thetas=1), seed=sd, n_chains=nch, chain_index=ch, n_burnin=0, thin=1)
            got_states = [x[2] for x in clog if x[0] == "set_rng"]
            rec.count("cli_streams_checked")
            rec.check(bool(got_states) and got_states[-1] == repr(ref_m.rng.bit_generator.state), "C17/stream/not-a-function-of-triple", lambda: "train_model --seed %d --n-chains %d --chain-index %d hands the model another generator than sample(seed=%d, n_chains=%d, chain_index=%d)" % (sd, nch, ch, sd, nch, ch), w)

    # ---------- (c) streams
    import logging

    def capture(sd, nch, ci, vary=False):
        """the generator handed to the model; with vary=True everything that is NOT part of the triple differs:
        schedule, size of the collection, progress bar and the verbosity of batchie's loggers"""
        m = CountingModel()
        if not vary:
            sampling.sample(m, ThetaHolder(n_thetas=1), seed=sd, n_chains=nch, chain_index=ci, n_burnin=0, thin=1)
            return m.rng
        if rng.random() < 0.3:
            # the same triple, every argument by position
            try:
                sampling.sample(m, ThetaHolder(n_thetas=2), sd, nch, ci, 1, 2)
                rec.count("captures_with_positional_arguments")
                return m.rng
            except Exception as e:
                rec.violation("C17/schedule/raises", "sample(model, holder, %d, %d, %d, 1, 2) - every argument by position, documented order - raised %r" % (sd, nch, ci, e), {"seed": sd, "n_chains": nch, "chain_index": ci})
                m = CountingModel()
        lg = logging.getLogger("batchie")
        lg2 = logging.getLogger("batchie.sampling")
        old = (lg.level, lg2.level)
        level = [logging.DEBUG, logging.INFO, logging.ERROR][int(rng.integers(3))]
        lg.setLevel(level)
        lg2.setLevel(level)
        rec.count("captures_at_log_level_%s" % logging.getLevelName(level))
        try:
            sampling.sample(m, ThetaHolder(n_thetas=int(rng.integers(1, 4))), seed=sd, n_chains=nch, chain_index=ci, n_burnin=int(rng.integers(0, 3)), thin=int(rng.integers(1, 3)), progress_bar=False)
        finally:
            lg.setLevel(old[0])
            lg2.setLevel(old[1])
        return m.rng

    n_stream = 10 if tier == "quick" else 60
    for _ in range(n_stream):
        sd = int(rng.choice([0, 1, 2**31, 2**32 - 1, int(rng.integers(0, 2**32))]))
        nch = int(rng.integers(1, 7))
        gens = [capture(sd, nch, ci) for ci in range(nch)]
        states = [repr(g.bit_generator.state) for g in gens]
        outs = [g.integers(0, 2**64, size=4096, dtype=np.uint64) for g in gens]
        for ci in range(nch):
            rec.case(("stream", sd, nch, ci), nontrivial=nch > 1)
            again = capture(sd, nch, ci, vary=True)
            rec.count("stream_pairs_checked")
            rec.check(repr(again.bit_generator.state) == states[ci], "C17/stream/not-a-function-of-triple", "two calls with (seed=%d,n_chains=%d,chain=%d) got different generator states" % (sd, nch, ci), {"seed": sd, "n_chains": nch, "chain_index": ci})
            rec.check(np.array_equal(again.integers(0, 2**64, size=4096, dtype=np.uint64), outs[ci]), "C17/stream/not-a-function-of-triple", "two calls with the same triple produced different draws", {"seed": sd, "n_chains": nch, "chain_index": ci})
            for cj in range(ci):
                rec.count("stream_pairs_checked")
                w = {"seed": sd, "n_chains": nch, "chains": [cj, ci]}
                rec.check(states[ci] != states[cj], "C17/stream/chains-share-state", "chains %d and %d of seed %d got the same generator state" % (cj, ci, sd), w)
                shared = np.intersect1d(outs[ci], outs[cj])
                rec.check(shared.size == 0, "C17/stream/overlap", lambda: "chains %d and %d share %d of their first 4096 outputs" % (cj, ci, shared.size), w)
        if shard == 0 and _ == 0:
            rec.sample({"kind": "streams", "seed": sd, "n_chains": nch, "first_output_per_chain": [int(o[0]) for o in outs]})

    # ---------- (d) VI
    vi_ns = [int(rng.integers(1, 12)) for _ in range(4 if tier == "quick" else 12)] + [int(x) for x in rng.choice([127, 128, 129, 255, 256, 257, 300, 512, 513, 1000, 1025, 4097], size=3 if tier == "quick" else 8, replace=False)]
    for n in vi_ns:
        m = VIStub()
        holder = ThetaHolder(n_thetas=n)
        rec.case(("vi", n))
        try:
            res = sampling.sample(m, holder, seed=int(rng.integers(0, 100)))
        except Exception as e:
            rec.violation("C17/vi/raises", "sample raised %r for a VI model" % (e,), {"n": n})
            continue
        rec.count("vi_checked")
        rec.check(m.calls == [n], "C17/vi/wrong-sample-calls", lambda: "VI model asked %r, expected one call for %d" % (m.calls, n), {"n": n})
        rec.check(len(res.thetas) == n and [t.step for t in res.thetas] == list(range(n)), "C17/vi/collection", "VI collection not the n samples in order", {"n": n})


def coverage_extra(tier, counters):
    B, T, N = GRID[tier]
    return {"exhaustive": False, "exhaustive_subspace": "schedule grid b<=%d x t<=%d x n<=%d enumerated completely with the counting model" % (B, T, N)}
