"""C20 - evaluation metrics and synergy values equal their definitions."""
import math
import os
from itertools import combinations

import numpy as np

from .. import kit, gen

PROP, NUM = "C20", 20
LEVEL = "exploration"
SHARDS = {"quick": 8, "thorough": 16}
TIMEOUT = {"quick": 900, "thorough": 5400}
RULE = (
    "prediction matrices 1-30 experiments x 1-12 posterior samples with chain labellings of unequal lengths and a single "
    "chain; id arrays of arity 2 and 3 with repeated single-agent measurements and the control in any column; synergy "
    "with arity 2 (strict and lenient, rows lacking a single-agent measurement); calculate_mse; full combinatoric space "
    "and between-sample correlation for 2-5 samples with random posterior samples; every value compared with a direct "
    "loop-based recomputation (math.fsum). A case is one input set per function family; distinct = hash of the inputs; "
    "non-trivial = repeated single-agent measurements / unequal chains / >=2 samples present"
)
ASSUMPTIONS = ["correlation cases whose centred prediction row is (nearly) identically zero (length below 1e-13: 0/0 diagonal) are detected and skipped; for near-replicate samples (lengths 1e-13 .. 1e-9) the tolerance on the entries grows with 2e-14 / length, the diagonal stays at 1e-9"]
REQUIRED = {"evaluation_cases_with_non_ascii_sample_names": {"quick": 100, "thorough": 2000}, "single_effect_cases_with_failed_wells": {"quick": 100, "thorough": 2000}, "synergy_cases_with_failed_wells": {"quick": 40, "thorough": 800}, "single_effect_cases_with_ids_of_another_integer_width": {"quick": 40, "thorough": 1000}, "correlation_cases_with_permuted_supplied_mappings": {"quick": 40, "thorough": 800}, "correlation_cases_near_replicate_samples": {"quick": 10, "thorough": 250}, "synergy_cases_with_integer_observations": {"quick": 60, "thorough": 1500}, "analysis_cli_runs": {"quick": 8, "thorough": 80}, "evaluation_cases": {"quick": 300, "thorough": 8000}, "single_effect_cases": {"quick": 300, "thorough": 8000}, "single_effect_cases_with_sparse_ids": {"quick": 80, "thorough": 2000}, "synergy_cases": {"quick": 300, "thorough": 8000}, "correlation_cases": {"quick": 60, "thorough": 1500}, "combinatoric_space_cases": {"quick": 100, "thorough": 2500}}
N_CASES = {"quick": 1920, "thorough": 24000}


def fmean(xs):
    xs = list(xs)
    return math.fsum(xs) / len(xs)


def fvar(xs):
    xs = list(xs)
    m = fmean(xs)
    return math.fsum((x - m) ** 2 for x in xs) / len(xs)


def approx(a, b, rel=1e-9):
    a, b = float(a), float(b)
    if a == b or (math.isnan(a) and math.isnan(b)):
        return True
    return abs(a - b) <= rel * (1 + abs(b))


def gen_ids(rng, arity, n, n_samples, n_treat):
    sids = rng.integers(0, n_samples, size=n)
    tids = rng.integers(0, n_treat, size=(n, arity))
    for i in range(n):
        u = rng.random()
        if u < 0.45:
            # single-agent row: all but one control, control in any column
            keep = int(rng.integers(arity))
            for a in range(arity):
                if a != keep:
                    tids[i, a] = -1
        elif u < 0.5:
            tids[i, :] = -1
        elif u < 0.6 and arity == 3:
            tids[i, int(rng.integers(3))] = -1
    return sids.astype(int), tids.astype(int)


def run_shard(rec, tier, seed, shard, nshards):
    from batchie.models import main as MM
    from batchie import data as D, synergy as SY, retrospective as R
    from batchie.data import Screen, ExperimentSpace
    from batchie.core import ThetaHolder

    rng = kit.rng_for(seed, NUM, shard)
    n_cases = N_CASES[tier] // nshards
    last_eval = None
    cli_budget = {"quick": 2, "thorough": 10}[tier]
    with kit.scratch_dir("vf-c20-") as tmp:
        for ci in range(n_cases):
            # ------------------------------------------------ ModelEvaluation
            E, T = int(rng.integers(1, 31)), int(rng.integers(1, 13))
            if ci == 1:
                E, T = int(rng.choice([257, 1025, 4097])), int(rng.choice([33, 257]))
                rec.count("evaluation_cases_large")
            pred = rng.random((E, T)) * float(rng.choice([1.0, 1.0, 100.0]))
            obs = rng.random(E)
            if rng.random() < 0.25:
                # every prediction off by (almost) the same large amount: per-experiment errors with a large mean
                # and a tiny spread
                pred = obs[:, None] + float(rng.choice([10.0, 100.0, 1000.0])) + rng.normal(size=(E, T)) * float(rng.choice([0.0, 1e-6, 1e-5, 1e-3]))
                rec.count("evaluation_cases_large_offset")
            style = str(rng.choice(["single", "equal", "unequal", "shuffled"]))
            if style == "single":
                chains = np.zeros(T, dtype=int)
            elif style == "equal":
                chains = np.arange(T) % max(1, int(rng.integers(1, 4)))
            else:
                chains = rng.integers(0, 4, size=T) * int(rng.choice([1, 3]))  # ids need not be 0..k-1
                if style == "unequal":
                    chains = np.sort(chains)
            names = np.array(["s%d" % int(x) for x in rng.integers(0, 3, size=E)], dtype=str)
            if rng.random() < 0.3:
                # cell-line names as labs write them: non-ASCII letters (more UTF-8 bytes than characters), also in the
                # longest name of the list; blanks; one name the prefix of another
                pool_ = ["PDX-Zürich-12", "PDX-Zürich-1", "Zürich", "NCI-H1299", "α", "日本株3", "HT 29", "é", "MCF7ß"]
                names = np.array([pool_[int(x)] for x in rng.integers(0, len(pool_), size=E)], dtype=str)
                rec.count("evaluation_cases_with_non_ascii_sample_names")
            if rng.random() < 0.3:
                # the matrices arrive in other containers: read-only (loaded lazily, shared between workers), strided,
                # column-major (a transposed samples-by-experiments matrix), a window into a bigger buffer
                pred, kp_ = kit.dress(rng, pred)
                obs, ko_ = kit.dress(rng, obs)
                chains = kit.dress(rng, chains.astype(int), kind=str(rng.choice(["plain", "readonly", "strided"])))[0]
                rec.count("evaluation_cases_on_arrays_in_other_containers")
            w = {"E": E, "T": T, "chains": chains.tolist()}
            rec.case(("eval", kit.array_hash(pred), kit.array_hash(obs), kit.array_hash(chains)), nontrivial=len(set(np.bincount(chains)[np.bincount(chains) > 0].tolist())) > 1 or T > 1)
            try:
                fp0 = (kit.array_hash(pred), kit.array_hash(obs), kit.array_hash(chains))
                me = MM.ModelEvaluation(predictions=pred, observations=obs, chain_ids=chains.astype(int), sample_names=names)
                got = (me.mse(), me.mse_variance(), me.inter_chain_mse_variance(), np.asarray(me.mean_predictions))
                got2 = (me.mse(), me.mse_variance(), me.inter_chain_mse_variance())
                rec.check(fp0 == (kit.array_hash(pred), kit.array_hash(obs), kit.array_hash(chains)) and all(float(a) == float(b) or (a != a and b != b) for a, b in zip(got[:3], got2)), "C20/evaluation/not-pure", "computing the metrics changed the inputs or a second call gave other values", w)
            except Exception as e:
                rec.violation("C20/evaluation/raises", "ModelEvaluation raised %r" % (e,), w)
            else:
                rec.count("evaluation_cases")
                sq = [[(pred[e, t] - obs[e]) ** 2 for t in range(T)] for e in range(E)]
                ref_mse = fmean(x for row in sq for x in row)
                ref_var = fvar(fmean(row) for row in sq)
                ref_ic = fvar(fmean(sq[e][t] for e in range(E) for t in range(T) if chains[t] == c) for c in sorted(set(chains.tolist())))
                ref_mean = [fmean(pred[e, t] for t in range(T)) for e in range(E)]
                rec.check(approx(got[0], ref_mse), "C20/evaluation/mse", lambda: "mse %r, definition %r" % (got[0], ref_mse), w)
                if len(set(chains.tolist())) >= 2 and E >= 2:
                    last_eval = (me, ref_mse, ref_var, ref_ic, dict(w))
                per_exp = [fmean(row) for row in sq]
                var_tol = 1e-9 * (1 + abs(ref_var)) + 64 * 2.2e-16 * max(abs(x) for x in per_exp) * (max(per_exp) - min(per_exp) + 1e-300) * 4
                rec.check(abs(float(got[1]) - ref_var) <= var_tol and float(got[1]) >= 0, "C20/evaluation/mse-variance", lambda: "mse_variance %r, variance over experiments of per-experiment MSE %r" % (got[1], ref_var), w)
                rec.check(approx(got[2], ref_ic), "C20/evaluation/inter-chain-variance", lambda: "inter_chain_mse_variance %r, variance of per-chain MSEs %r (chains %r)" % (got[2], ref_ic, chains.tolist()), w)
                rec.check(got[3].shape == (E,) and all(approx(a, b) for a, b in zip(got[3], ref_mean)), "C20/evaluation/mean-predictions", "mean_predictions differ from the average over posterior samples", w)
                fn = os.path.join(tmp, "me.h5")
                try:
                    me.save_h5(fn)
                    me2 = MM.ModelEvaluation.load_h5(fn)
                    same = kit.bytes_equal(me2.predictions, pred) and kit.bytes_equal(me2.observations, obs) and np.array_equal(me2.chain_ids, chains) and kit.str_equal(me2.sample_names, names)
                    rec.check(same, "C20/evaluation/reload-differs", "evaluation file does not reload unchanged", w)
                except Exception as e:
                    rec.violation("C20/evaluation/reload-raises", "save/load raised %r" % (e,), w)
                if ci == 0 and shard == 0:
                    rec.sample({"kind": "evaluation", "E": E, "T": T, "chains": chains.tolist(), "mse": float(got[0]), "mse_variance": float(got[1]), "inter_chain": float(got[2])})

            # ------------------------------------------------ single-agent effects (arity 2 and 3)
            arity = int(rng.choice([2, 2, 3]))
            n = int(rng.integers(1, 25))
            nS, nT = int(rng.integers(1, 4)), int(rng.integers(1, 5))
            sids, tids = gen_ids(rng, arity, n, nS, nT)
            if rng.random() < 0.35:
                # id arrays of a view: the ids that occur are neither contiguous nor small (a plate of a big screen)
                tmap = np.sort(rng.choice(np.arange(0, 60), size=nT, replace=False))
                smap = np.sort(rng.choice(np.arange(0, 40), size=nS, replace=False))
                tids = np.where(tids == -1, -1, tmap[np.clip(tids, 0, nT - 1)])
                sids = smap[sids]
                rec.count("single_effect_cases_with_sparse_ids")
            if rng.random() < 0.2:
                # ids of another integer width than the library's own int64: int32 from a file, unsigned 64-bit sample
                # ids made by hashing names (beyond 2**53), small unsigned sample ids
                how_ = int(rng.integers(3))
                if how_ == 0:
                    sids, tids = sids.astype(np.int32), tids.astype(np.int32)
                elif how_ == 1:
                    big = np.array([int(x) for x in rng.integers(2**62, 2**63, size=int(sids.max()) + 1, dtype=np.int64)], dtype=np.uint64) * np.uint64(2) + np.uint64(1)
                    sids = big[sids.astype(np.int64)]
                else:
                    sids = sids.astype(np.uint8)
                rec.count("single_effect_cases_with_ids_of_another_integer_width")
            ob = rng.random(n)
            if rng.random() < 0.3:
                for i in range(n):
                    if rng.random() < 0.35:
                        ob[i] = float(rng.choice([0.0, 0.0, 1.0, 0.25, -0.25]))
            if rng.random() < 0.2:
                # failed wells: a NaN among the replicates of a condition (the mean of such replicates is NaN - the
                # effect of that condition is unknown, not the mean of the wells that happened to work)
                for i in range(n):
                    if rng.random() < 0.25:
                        ob[i] = float("nan")
                rec.count("single_effect_cases_with_failed_wells")
            w = {"arity": arity, "sample_ids": sids.tolist(), "treatment_ids": tids.tolist()}
            single_rows = {}
            for i in range(n):
                nc = [int(t) for t in tids[i] if t != -1]
                if len(nc) == 1:
                    single_rows.setdefault((int(sids[i]), nc[0]), []).append(float(ob[i]))
            repeated = any(len(v) > 1 for v in single_rows.values())
            rec.case(("single", kit.array_hash(sids), kit.array_hash(tids), kit.array_hash(ob)), nontrivial=repeated)
            try:
                mp = D.create_single_treatment_effect_map(sample_ids=sids, treatment_ids=tids, observation=ob)
            except Exception as e:
                rec.violation("C20/single-effect/raises", "create_single_treatment_effect_map raised %r" % (e,), w)
                mp = None
            if mp is not None:
                rec.count("single_effect_cases")
                if repeated:
                    rec.count("single_effect_cases_with_repeats")
                ref = {}
                for c in sorted(set(sids.tolist())):
                    for t in sorted(set(tids.ravel().tolist())):
                        if t == -1:
                            ref[(c, -1)] = 1.0
                        elif (c, t) in single_rows:
                            ref[(c, t)] = fmean(single_rows[(c, t)])
                got = {(int(k[0]), int(k[1])): float(v) for k, v in mp.items()}
                rec.check(sorted(got) == sorted(ref), "C20/single-effect/keys", lambda: "effect map keys %r, expected %r" % (sorted(got), sorted(ref)), w)
                bad = [k for k in ref if k in got and not approx(got[k], ref[k])]
                rec.check(not bad, "C20/single-effect/not-the-mean", lambda: "effect of %r is %r, mean of that sample's single-agent observations %r is %r" % (bad[0], got[bad[0]], single_rows.get(bad[0]), ref[bad[0]]), w)
                # array form
                try:
                    arr = D.create_single_treatment_effect_array(sample_ids=sids, treatment_ids=tids, observation=ob)
                    ok = arr.shape == tids.shape and all(approx(arr[i, a], ref[(int(sids[i]), int(tids[i, a]))]) for i in range(n) for a in range(arity))
                    rec.check(ok, "C20/single-effect/array", "single treatment effect array differs from the map", w)
                except KeyError:
                    rec.check(any((int(sids[i]), int(tids[i, a])) not in ref for i in range(n) for a in range(arity)), "C20/single-effect/array-keyerror", "array form raised KeyError although every effect is measured", w)

            # ------------------------------------------------ synergy (arity 2, >=1 non-control per row)
            n = int(rng.integers(1, 25))
            nS, nT = int(rng.integers(1, 4)), int(rng.integers(2, 5))
            sids, tids = gen_ids(rng, 2, n, nS, nT)
            keep = ~(tids == -1).all(axis=1)
            if not keep.any():
                continue
            sids, tids = sids[keep], tids[keep]
            n = len(sids)
            ob = rng.random(n)
            if rng.random() < 0.4:
                # fully lethal single agents (exactly 0.0), measurements that cancel to 0, exact ones
                for i in range(n):
                    if rng.random() < 0.35:
                        ob[i] = float(rng.choice([0.0, 0.0, 1.0, 0.25, -0.25]))
                rec.count("synergy_cases_with_exact_zero_effects")
            if rng.random() < 0.12:
                # read-outs recorded as counts or dead / alive calls: an integer or boolean observation vector
                dt_ = [np.int64, np.int32, np.uint8, bool][int(rng.integers(4))]
                ob = (rng.random(n) < 0.6).astype(dt_) if dt_ is bool else rng.integers(0, 3, size=n).astype(dt_)
                rec.count("synergy_cases_with_integer_observations")
            elif rng.random() < 0.15:
                for i in range(n):
                    if rng.random() < 0.2:
                        ob[i] = float("nan")
                rec.count("synergy_cases_with_failed_wells")
            # make sure some combination rows lack a single-agent measurement
            w = {"sample_ids": sids.tolist(), "treatment_ids": tids.tolist()}
            single_rows = {}
            for i in range(n):
                nc = [int(t) for t in tids[i] if t != -1]
                if len(nc) == 1:
                    single_rows.setdefault((int(sids[i]), nc[0]), []).append(float(ob[i]))
            eff = {k: fmean(v) for k, v in single_rows.items()}
            combos = [i for i in range(n) if (tids[i] != -1).all()]
            ref_rows = []
            missing = False
            for i in combos:
                ks = [(int(sids[i]), int(t)) for t in tids[i]]
                if all(k in eff for k in ks):
                    ref_rows.append((int(sids[i]), tuple(int(t) for t in tids[i]), eff[ks[0]] * eff[ks[1]] - float(ob[i])))
                else:
                    missing = True
            rec.case(("synergy", kit.array_hash(sids), kit.array_hash(tids), kit.array_hash(ob)), nontrivial=bool(combos))
            for strict in (False, True):
                try:
                    rs, rt, ry = SY.calculate_synergy(sids, tids, ob, strict=strict)
                except ValueError as e:
                    rec.count("synergy_cases")
                    rec.check(strict and missing, "C20/synergy/refused-although-measured", lambda: "calculate_synergy(strict=%s) raised %r although every single-agent effect is measured" % (strict, e), w)
                    continue
                except Exception as e:
                    rec.violation("C20/synergy/raises", "calculate_synergy raised %r" % (e,), w)
                    continue
                rec.count("synergy_cases")
                if strict:
                    rec.check(not missing, "C20/synergy/strict-did-not-refuse", "strict mode returned although a combination lacks a single-agent measurement", w)
                got = [(int(a), tuple(int(x) for x in np.atleast_1d(b)), float(c)) for a, b, c in zip(rs, rt, ry)]
                ok = len(got) == len(ref_rows) and all(g[0] == r[0] and g[1] == r[1] and approx(g[2], r[2]) for g, r in zip(got, ref_rows))
                rec.check(ok, "C20/synergy/not-bliss", lambda: "synergy rows %r, Bliss (product of single effects - observation) gives %r" % (got[:4], ref_rows[:4]), w)
                if missing and not strict:
                    rec.count("synergy_lenient_skips")

            # ------------------------------------------------ calculate_mse, combinatoric space, correlation
            if ci % 3 == 0:
                arity = int(rng.choice([1, 2, 2]))
                ctrl = str(rng.choice(["", "", "DMSO"]))
                kw = gen.realistic_screen_kwargs(rng, n_samples=(2, 5), n_drugs=(2, 3), n_doses=(1, 2), n_rows=(6, 24), n_plates=(1, 3), observed="all", arity=arity, p_double_control=0.0, control=ctrl)
                if ctrl:
                    # a named control is a control whatever dose is recorded for it
                    hit = np.argwhere(kw["treatment_names"] == ctrl)
                    for r_, c_ in hit[rng.random(len(hit)) < 0.5]:
                        kw["treatment_doses"][r_, c_] = 0.5
                    rec.count("correlation_cases_named_control")
                screen = Screen(**kw)
                variant = str(rng.choice(["whole", "superset-mapping", "view", "permuted-mapping"]))
                if variant == "permuted-mapping":
                    # mappings supplied by the caller whose ids do not follow the listing order (the constructor follows
                    # them verbatim)
                    smap_, tmap_ = screen.sample_mapping, screen.treatment_mapping
                    s_ids = np.asarray(smap_[1]).copy()
                    s_ids = s_ids[rng.permutation(len(s_ids))]
                    t_ids = np.asarray(tmap_[2]).copy()
                    nc_ = np.flatnonzero(t_ids >= 0)
                    t_ids[nc_] = t_ids[nc_][rng.permutation(len(nc_))]
                    try:
                        screen = Screen(treatment_mapping=(np.asarray(tmap_[0]).copy(), np.asarray(tmap_[1]).copy(), t_ids), sample_mapping=(np.asarray(smap_[0]).copy(), s_ids), **kw)
                        rec.count("correlation_cases_with_permuted_supplied_mappings")
                    except Exception as e:
                        rec.did_not_return("permuted-mapping", e)
                if variant != "whole" and screen.size >= 4:
                    keep = rng.random(screen.size) < 0.6
                    if keep.sum() >= 2 and len(set(str(x) for x in screen.sample_names[keep])) >= 2:
                        if variant == "view":
                            screen = screen.subset(keep)  # a view: the parent's mappings, fewer rows
                        else:
                            kw2 = {k_: (v_[keep] if isinstance(v_, np.ndarray) else v_) for k_, v_ in kw.items()}
                            screen = Screen(treatment_mapping=screen.treatment_mapping, sample_mapping=screen.sample_mapping, **kw2)
                        rec.count("correlation_cases_rows_do_not_cover_mapping")
                sp = ExperimentSpace(treatment_mapping=screen.treatment_mapping, sample_mapping=screen.sample_mapping, control_treatment_name=screen.control_treatment_name)
                T = int(rng.integers(1, 5))
                holder = ThetaHolder(n_thetas=T)
                near_replicates = bool(rng.random() < 0.2)
                eps_ = float(rng.choice([1e-10, 3e-11]))
                for _ in range(T):
                    th_ = gen.random_sparse_combo_theta(rng, sp.n_unique_samples, max(1, sp.n_unique_treatments), scale=float(rng.choice([0.3, 1.0])))
                    if near_replicates:
                        # samples that are replicates of one another up to the tenth digit (the same line plated twice)
                        # (the blocks may sit in read-only containers: assign new arrays instead of writing in place)
                        th_.W = th_.W[0] + eps_ * rng.normal(size=th_.W.shape)
                        th_.W0 = th_.W0[0] + eps_ * rng.normal(size=th_.W0.shape)
                    holder.add_theta(th_)
                w = {"arity": arity, "mapping_rows": int(len(screen.treatment_mapping[0])), "samples": int(sp.n_unique_samples), "T": T}
                # calculate_mse
                try:
                    got = R.calculate_mse(screen, holder)
                    avg = [fmean(float(th.predict_viability(screen)[e]) for th in holder.thetas) for e in range(screen.size)]
                    ref = fmean((a - float(o)) ** 2 for a, o in zip(avg, screen.observations))
                    rec.check(approx(got, ref), "C20/calculate_mse", lambda: "calculate_mse %r, definition %r" % (got, ref), w)
                except Exception as e:
                    rec.violation("C20/calculate_mse/raises", "calculate_mse raised %r" % (e,), w)
                # full combinatoric space
                mrows = list(zip([str(x) for x in screen.treatment_mapping[0]], [float(x) for x in screen.treatment_mapping[1]], [int(x) for x in screen.treatment_mapping[2]]))
                sid = int(rng.choice(screen.unique_sample_ids))
                rec.case(("space", kit.array_hash(screen.treatment_ids), sid), nontrivial=len(mrows) >= 3)
                try:
                    cs = MM.generate_full_combinatoric_space(sid, screen)
                except Exception as e:
                    rec.violation("C20/combinatoric-space/raises", "generate_full_combinatoric_space raised %r\n%s" % (e, kit.tb()), w)
                    cs = None
                if cs is not None:
                    rec.count("combinatoric_space_cases")
                    want = list(combinations(mrows, screen.treatment_arity))
                    ok = cs.size == len(want) and cs.treatment_arity == screen.treatment_arity
                    if ok:
                        for i, combo in enumerate(want):
                            for a, (nm, ds, tid) in enumerate(combo):
                                if str(cs.treatment_names[i, a]) != nm or float(cs.treatment_doses[i, a]) != ds or int(cs.treatment_ids[i, a]) != tid:
                                    ok = False
                    rec.check(ok, "C20/combinatoric-space/not-all-combinations-with-own-ids", lambda: "artificial screen has %d rows for %d combinations of the %d mapping rows, or foreign ids" % (cs.size, len(want), len(mrows)), w)
                    rec.check(bool(np.all(np.asarray(cs.sample_ids) == sid)), "C20/combinatoric-space/sample-id", "artificial screen carries another sample id", w)
                # correlation
                rec.case(("corr", kit.array_hash(screen.treatment_ids), T), nontrivial=True)
                try:
                    corr = MM.correlation_matrix(screen, holder)
                except Exception as e:
                    rec.violation("C20/correlation/raises", "correlation_matrix raised %r\n%s" % (e, kit.tb()), w)
                    continue
                usids = [int(x) for x in screen.unique_sample_ids]
                preds = []
                for s_ in usids:
                    cs = MM.generate_full_combinatoric_space(s_, screen)
                    preds.append([fmean(float(th.predict_viability(cs)[e]) for th in holder.thetas) for e in range(cs.size)])
                ncol = len(preds[0])
                mu = [fmean(p[e] for p in preds) for e in range(ncol)]
                X = [[p[e] - mu[e] for e in range(ncol)] for p in preds]
                norms = [math.sqrt(math.fsum(x * x for x in row)) for row in X]
                if min(norms) < 1e-13:
                    rec.count("correlation_degenerate_skipped")
                    continue
                rec.count("correlation_cases")
                # near-replicate samples: the centred rows are tiny (1e-13 .. 1e-9) but not zero; each row is still divided
                # by its own length (unit diagonal), the entries carry the rounding of the centring (1e-16 / length)
                tol_def = 1e-8 + 2e-14 / min(norms)
                if min(norms) < 1e-9:
                    rec.count("correlation_cases_near_replicate_samples")
                ref = [[math.fsum(a * b for a, b in zip(X[i], X[j])) / (norms[i] * norms[j]) for j in range(len(X))] for i in range(len(X))]
                C = np.asarray(corr.values, dtype=float)
                id_to_name = dict(zip([int(x) for x in screen.sample_ids], [str(x) for x in screen.sample_names]))
                rec.check(C.shape == (len(usids), len(usids)) and [str(x) for x in corr.index] == [id_to_name[s_] for s_ in usids], "C20/correlation/labels", "similarity matrix labels are not the samples in id order", w)
                if C.shape == (len(usids), len(usids)):
                    rec.check(bool(np.allclose(C, C.T, rtol=0, atol=1e-12)), "C20/correlation/asymmetric", "similarity matrix is not symmetric", w)
                    rec.check(bool(np.allclose(np.diag(C), 1.0, rtol=0, atol=1e-9)), "C20/correlation/diagonal-not-one", lambda: "diagonal %r" % np.diag(C).tolist(), w)
                    rec.check(bool(np.allclose(C, np.array(ref), rtol=0, atol=tol_def)), "C20/correlation/differs-from-definition", lambda: "similarity %r, definition %r" % (C.tolist(), ref), w)
                # ---- the numbers as the analysis command reports them (summary_statistics.json): an evaluation file with
                #      several chains, the posterior samples given as ONE combined file
                if last_eval is not None and cli_budget > 0 and not hasattr(screen, "selection_vector"):
                    cli_budget -= 1
                    import json
                    from batchie.cli import analyze_model_evaluation as cli_an

                    me_, r_mse, r_var, r_ic, w_ = last_eval
                    f_me, f_sc, f_th, d_out = (os.path.join(tmp, x) for x in ("an_me.h5", "an_screen.h5", "an_thetas.h5", "an_out"))
                    try:
                        me_.save_h5(f_me)
                        screen.save_h5(f_sc)
                        holder.save_h5(f_th)
                        kit.run_cli(cli_an.main, ["--model-evaluation", f_me, "--screen", f_sc, "--thetas", f_th, "--output-dir", d_out])
                        with open(os.path.join(d_out, "summary_statistics.json")) as fh:
                            rep = json.load(fh)
                    except Exception as e:
                        rec.did_not_return("analyze_model_evaluation", e)
                    else:
                        rec.count("analysis_cli_runs")
                        w2 = dict(w_, via="analyze_model_evaluation")
                        rec.check(approx(rep["mse"], r_mse), "C20/evaluation/mse", lambda: "summary_statistics.json reports mse %r, definition %r" % (rep["mse"], r_mse), w2)
                        rec.check(abs(float(rep["mse_variance"]) - r_var) <= 1e-9 * (1 + abs(r_var)) + 1e-12, "C20/evaluation/mse-variance", lambda: "summary_statistics.json reports mse_variance %r, definition %r" % (rep["mse_variance"], r_var), w2)
                        rec.check(approx(rep["inter_chain_mse_variance"], r_ic), "C20/evaluation/inter-chain-variance", lambda: "summary_statistics.json reports inter_chain_mse_variance %r, the variance of the per-chain MSEs is %r" % (rep["inter_chain_mse_variance"], r_ic), w2)
