"""C18 - randomised steps are deterministic in their inputs and the given generator/seed."""
import os
import random
import subprocess
import sys

import numpy as np

from .. import kit, gen, repoimport
from . import retro_common as RC

PROP, NUM = "C18", 18
LEVEL = "exploration"
SHARDS = {"quick": 8, "thorough": 16}
TIMEOUT = {"quick": 1200, "thorough": 7200}
RULE = (
    "every randomised operation named in the property (3 plate generators, 6 smoothers, sparse cover, 2 hold-outs, "
    "RandomScorer, DBAL with C(n,3) above the triple budget, score_chunk, policy filtering / select_next_plate, model "
    "training of both MCMC models through sampling.sample, and the CLI mains with --seed in-process) is executed twice "
    "with identical inputs and an identically seeded generator; run A is bracketed by snapshots of numpy's and Python's "
    "global random state (perturbation monitor); between the runs the global generators are reseeded differently and "
    "during run B unrelated global draws are injected at line granularity through sys.monitoring restricted to batchie's "
    "code objects (interleaving monitor); outputs are compared through bytes / loaded content. A case is one operation "
    "pair; distinct = (operation, parameters, input hash, seed); non-trivial = the operation returned in both runs"
)
ASSUMPTIONS = ["thorough tier repeats the CLI steps as real subprocesses under two PYTHONHASHSEED values", "line-granular injection uses sys.monitoring LINE events on code objects whose file lies under the tree under test"]
REQUIRED = {"pairs_whose_second_run_has_the_other_verbosity": {"quick": 300, "thorough": 4000}, "generators_in_equal_state_made_by_different_routes": {"quick": 300, "thorough": 4000}, "training_pairs_user_subclass": {"quick": 8, "thorough": 150}, "pairs_with_positional_arguments": {"quick": 10, "thorough": 200}, "dbal_kernel_pairs_on_the_callers_arrays": {"quick": 100, "thorough": 1000}, "pairs_compared": {"quick": 400, "thorough": 8000}, "global_state_checks": {"quick": 400, "thorough": 8000}, "injected_global_draws": {"quick": 2000, "thorough": 50000}, "training_pairs": {"quick": 16, "thorough": 300}, "training_pairs_same_model": {"quick": 16, "thorough": 300}, "training_with_non_default_switches": {"quick": 6, "thorough": 100}, "vi_training_pairs": {"quick": 40, "thorough": 600}, "reused_scorer_pairs": {"quick": 30, "thorough": 600}, "dbal_pairs_many_samples": {"quick": 12, "thorough": 48}, "second_runs_on_an_object_with_a_past": {"quick": 60, "thorough": 1200}, "grid_model_training_pairs": {"quick": 2, "thorough": 16}, "cli_pairs": {"quick": 24, "thorough": 400}, "cli_subprocess_pairs": {"quick": 2, "thorough": 16}}
N_OPS = {"quick": 640, "thorough": 12800}
TOOL = 4


# ----------------------------------------------------------------------------- global state helpers
def np_state():
    s = np.random.get_state()
    return (s[0], kit.raw_bytes(s[1]), s[2], s[3], s[4])


def py_state():
    return random.getstate()


class Injector:
    """Unrelated draws from the process-global generators while batchie code runs."""

    def __init__(self, rec, every, seed):
        self.rec = rec
        self.every = every
        self.n = 0
        self.k = seed
        self.active = False
        self.prefix = os.path.join(repoimport.REPO, "")

    def _line(self, code, line):
        if not code.co_filename.startswith(self.prefix):
            return sys.monitoring.DISABLE
        self.n += 1
        if self.n % self.every == 0:
            self.k += 1
            if self.k % 7 == 0:
                np.random.seed(self.k % 100000)
                random.seed(self.k)
            np.random.random()
            np.random.normal()
            random.random()
            self.rec.count("injected_global_draws", 3)

    def __enter__(self):
        m = sys.monitoring
        try:
            m.use_tool_id(TOOL, "vf-c18")
        except ValueError:
            m.free_tool_id(TOOL)
            m.use_tool_id(TOOL, "vf-c18")
        m.register_callback(TOOL, m.events.LINE, self._line)
        m.set_events(TOOL, m.events.LINE)
        m.restart_events()
        return self

    def __exit__(self, *a):
        m = sys.monitoring
        m.set_events(TOOL, 0)
        m.register_callback(TOOL, m.events.LINE, None)
        m.free_tool_id(TOOL)


_PAIRS = [0]


def pair(rec, opname, detail, run, fingerprint, w, inj_every=23, case_key=None, count_as=None, extra_state=None):
    """Run `run(seed)` twice; decide determinism and non-perturbation."""
    # ---- run A: bracketed by global-state snapshots (no injection)
    np.random.seed(12345)
    random.seed(12345)
    np.random.random(3)
    b_np, b_py = np_state(), py_state()
    b_extra = extra_state() if extra_state else None
    try:
        a = run()
        fa = fingerprint(a)
    except Exception as e:
        rec.case(None, nontrivial=False)
        rec.did_not_return(opname, e)
        return False
    a_np, a_py = np_state(), py_state()
    rec.count("global_state_checks")
    rec.check(a_np == b_np, "C18/%s/perturbs-global-numpy-state" % opname, "%s %s changed numpy's process-global random state" % (opname, detail), w)
    rec.check(a_py == b_py, "C18/%s/perturbs-global-python-state" % opname, "%s %s changed Python's global random state" % (opname, detail), w)
    if extra_state:
        rec.check(extra_state() == b_extra, "C18/%s/perturbs-global-torch-state" % opname, "%s %s changed torch's process-global generator state" % (opname, detail), w)
    # ---- between the runs: reseed the globals differently and draw
    np.random.seed(987)
    random.seed(4)
    np.random.random(17)
    random.random()
    if extra_state:
        import torch

        torch.manual_seed(4242)  # another prior state of torch's global generator for run B
        torch.rand(5)
    # ---- run B: unrelated global draws injected at line granularity; in every second pair also at the OTHER verbosity
    # (how much is logged is no input of a randomised step: a run under -v and a quiet run with the same seed agree)
    import logging

    lg_ = logging.getLogger("batchie")
    lvl0_ = lg_.level
    _PAIRS[0] += 1
    if _PAIRS[0] % 2 == 0:
        lg_.setLevel(logging.CRITICAL if lvl0_ == logging.DEBUG else logging.DEBUG)
        rec.count("pairs_whose_second_run_has_the_other_verbosity")
    try:
        try:
            with Injector(rec, inj_every, seed=int(b_np[2]) + 1):
                b = run()
        finally:
            lg_.setLevel(lvl0_)
        fb = fingerprint(b)
    except Exception as e:
        rec.case(None, nontrivial=False)
        rec.violation("C18/%s/second-run-raises" % opname, "%s %s returned in run A but raised %r in run B\n%s" % (opname, detail, e, kit.tb()), w)
        return False
    rec.case(case_key if case_key is not None else (opname, detail, fa), nontrivial=True)
    rec.count("pairs_compared")
    rec.count("pairs_" + opname.split("/")[0])
    if count_as:
        rec.count(count_as)
    rec.check(fa == fb, "C18/%s/nondeterministic" % opname, "%s %s: two runs with identical inputs and an identically seeded generator gave different output" % (opname, detail), w)
    return True


def screen_fp(s):
    return RC.screen_fingerprint(kit, s)


def theta_fp(holder):
    out = []
    for th in holder.thetas:
        d = th.private_parameters_dict()
        out.append([(k, kit.array_hash(v) if isinstance(v, np.ndarray) else repr(float(v))) for k, v in sorted(d.items()) if not isinstance(v, dict)])
    return out


def run_shard(rec, tier, seed, shard, nshards):
    from batchie.data import Screen, ExperimentSpace
    from batchie import retrospective as R, sampling
    from batchie.core import ThetaHolder
    from batchie.scoring import gaussian_dbal as G
    from batchie.scoring.rand import RandomScorer
    from batchie.scoring.main import score_chunk, select_next_plate, ChunkedScoresHolder
    from batchie.policies.k_per_sample import KPerSamplePlatePolicy
    from batchie.models.sparse_combo import SparseDrugCombo
    from batchie.models.sparse_combo_interaction import SparseDrugComboInteraction
    from batchie.distance_calculation import ChunkedDistanceMatrix

    rng = kit.rng_for(seed, NUM, shard)
    n_ops = N_OPS[tier] // nshards

    # ------------------------------------------------ generators, smoothers, hold-outs, sparse cover
    for oi in range(n_ops):
        kw, flavour = RC.retro_screen_kwargs(rng)
        name = None
        if oi % 9 == 8:
            kw.pop("observation_mask", None)
            screen = Screen(**kw)
            p = dict(reveal_single_treatment_experiments=bool(rng.random() < 0.5))
            name, params = "SparseCover", p
            gobj = R.SparseCoverPlateGenerator(**p)
            fn = gobj.generate_and_unmask_initial_plate
            fn2 = R.SparseCoverPlateGenerator(**p).generate_and_unmask_initial_plate
            kind = "generator"
        else:
            screen = Screen(**kw)
            state0 = rng.bit_generator.state
            kind, name, params, fn = RC.make_operation(rng, R, screen)
            state1 = rng.bit_generator.state
            rng.bit_generator.state = state0
            _k2, _n2, params2, fn2 = RC.make_operation(rng, R, screen)  # a second, identically configured object
            rng.bit_generator.state = state1
            if repr(params2) != repr(params):
                fn2 = fn
        s0 = int(rng.integers(0, 2**31))
        adv = int(rng.integers(0, 20))

        # in the second run of half of the pairs the generator / smoother OBJECT has a past: it has already been
        # applied to another screen with another generator (a long-lived object in a loop over data sets)
        past = None
        if kind != "holdout" and rng.random() < 0.5:
            try:
                past = Screen(**RC.retro_screen_kwargs(rng)[0])
            except Exception:
                past = None

        def run(fn=fn, fn2=fn2, screen=screen, s0=s0, adv=adv, past=past, st={"n": 0}):
            st["n"] += 1
            f = fn
            if past is not None and st["n"] == 2:
                f = fn2  # the first run used a fresh object; this one was applied to something else before
                try:
                    f(past, np.random.default_rng(s0 + 99))
                except Exception:
                    pass
                rec.count("second_runs_on_an_object_with_a_past")
            # the two runs get generators in the same state that were made by different routes (built, deep-copied,
            # unpickled, restored from a checkpointed state, parent of spawned children)
            g = kit.twin_rng(s0, adv)
            rec.count("generators_in_equal_state_made_by_different_routes")
            return f(screen, g)

        fp = (lambda r: [screen_fp(r[0]), screen_fp(r[1])]) if kind == "holdout" else screen_fp
        w = {"op": name, "params": params, "rows": int(screen.size), "generator_seed": s0}
        pair(rec, name, repr(params), run, fp, w, case_key=(name, repr(sorted(params.items())), kit.array_hash(screen.observations), s0))
        if oi == 0 and shard == 0:
            rec.sample({"op": name, "params": params, "rows": int(screen.size), "generator_seed": s0})

    # ------------------------------------------------ scorers, DBAL sub-sampling, score_chunk, selection
    n_sc = {"quick": 10, "thorough": 120}[tier]
    for si in range(n_sc):
        kw = gen.realistic_screen_kwargs(rng, n_rows=(6, 30), n_plates=(2, 7), observed=str(rng.choice(["none", "some"])), plate_per_sample=True)
        screen = Screen(**kw)
        sp = ExperimentSpace.from_screen(screen)
        T = int(rng.integers(9, 14))  # C(9,3)=84
        holder = ThetaHolder(n_thetas=T)
        for _ in range(T):
            holder.add_theta(gen.random_sparse_combo_theta(rng, sp.n_unique_samples, max(1, sp.n_unique_treatments), scale=1.0))
        d = np.abs(rng.normal(size=(T, T)))
        d = d + d.T
        np.fill_diagonal(d, 0)
        cdm = ChunkedDistanceMatrix(size=T)
        for i in range(T):
            for j in range(i):
                cdm.add_value(i, j, float(d[i, j]))
        s0 = int(rng.integers(0, 2**31))
        budget = int(rng.integers(5, 60))  # below C(T,3): sub-sampling branch
        plates = {int(p.plate_id): p for p in screen.plates if not p.is_observed}
        w = {"n_thetas": T, "budget": budget, "generator_seed": s0}
        pair(rec, "RandomScorer", "", lambda: RandomScorer().score(plates, cdm, holder, kit.twin_rng(s0), False), lambda r: sorted((int(k), float(v)) for k, v in r.items()), w, case_key=("rand", s0, len(plates)))
        pair(rec, "GaussianDBALScorer", "max_triples=%d" % budget, lambda: G.GaussianDBALScorer(max_chunk=int(2), max_triples=budget).score(plates, cdm, holder, kit.twin_rng(s0), False), lambda r: sorted((int(k), float(v).hex()) for k, v in r.items()), w, case_key=("dbal", s0, T, budget))
        nch = int(rng.integers(1, 4))
        cidx = int(rng.integers(nch))
        # a scorer object with a past: in the second run the same kind of object has already scored once with another
        # seed (a long-lived scorer in a loop over rounds); its output may depend on the inputs and the generator only
        def reused(make, st):
            def run():
                st["n"] = st.get("n", 0) + 1
                sc = make()
                if st["n"] == 2:
                    sc.score(plates, cdm, holder, np.random.default_rng(s0 + 17), False)
                return sc.score(plates, cdm, holder, kit.twin_rng(s0), False)

            return run

        pair(rec, "GaussianDBALScorer-reused-object", "max_triples=%d" % budget, reused(lambda: G.GaussianDBALScorer(max_chunk=int(2), max_triples=budget), {}), lambda r: sorted((int(k), float(v).hex()) for k, v in r.items()), w, case_key=("dbal-reused", s0, T, budget), count_as="reused_scorer_pairs")
        pair(rec, "RandomScorer-reused-object", "", reused(lambda: RandomScorer(), {}), lambda r: sorted((int(k), float(v)) for k, v in r.items()), w, case_key=("rand-reused", s0, len(plates)), count_as="reused_scorer_pairs")
        pair(rec, "score_chunk", "RandomScorer", lambda: score_chunk(RandomScorer(), holder, screen, cdm, rng=kit.twin_rng(s0), n_chunks=nch, chunk_index=cidx), lambda h: [kit.array_hash(h.scores), kit.array_hash(h.plate_ids)], w, case_key=("score_chunk", s0, nch, cidx))
        pair(rec, "score_chunk", "RandomScorer, arguments by position", lambda: score_chunk(RandomScorer(), holder, screen, cdm, kit.twin_rng(s0)), lambda h: [kit.array_hash(h.scores), kit.array_hash(h.plate_ids)], w, case_key=("score_chunk-positional", s0), count_as="pairs_with_positional_arguments")
        pair(rec, "score_chunk", "GaussianDBALScorer", lambda: score_chunk(G.GaussianDBALScorer(max_triples=budget), holder, screen, cdm, rng=kit.twin_rng(s0), n_chunks=nch, chunk_index=cidx), lambda h: [kit.array_hash(h.scores), kit.array_hash(h.plate_ids)], w, case_key=("score_chunk-dbal", s0, nch, cidx, budget))
        allh = ChunkedScoresHolder(len(plates))
        for pid in plates:
            allh.add_score(pid, float(rng.integers(0, 3)))
        k = int(rng.integers(1, 3))
        pair(rec, "select_next_plate", "KPerSamplePlatePolicy(k=%d)" % k, lambda: select_next_plate(allh, screen, KPerSamplePlatePolicy(k), batch_plate_ids=[], rng=kit.twin_rng(s0)), lambda r: None if r is None else int(r.plate_id), w, case_key=("select", s0, k, kit.array_hash(allh.scores)))

    # ------------------------------------------------ DBAL triple sub-sampling in the production regime: thousands of
    #                                                  posterior samples, C(n,3) beyond 2**31 and 2**32
    for n_big in ((2400, 3000) if tier == "quick" else (2400, 2600, 3000, 4000)):
        E_ = int(rng.integers(1, 4))
        preds = rng.normal(size=(2, n_big, E_))
        var = np.exp(rng.normal(size=(2, n_big, E_)))
        dd = np.abs(rng.normal(size=(n_big, n_big)))
        dd = dd + dd.T
        np.fill_diagonal(dd, 0.0)
        s0 = int(rng.integers(0, 2**31))
        bud = int(rng.choice([50, 300, 1000]))
        pair(rec, "DBAL-subsampling-many-samples", "n_thetas=%d budget=%d" % (n_big, bud), lambda: G.dbal_fast_gauss_scoring_vectorized(preds, var, dd, kit.twin_rng(s0), max_combos=bud), lambda r: [float(x).hex() for x in np.asarray(r).ravel()], {"n_thetas": n_big, "budget": bud, "seed": s0}, inj_every=3, case_key=("dbal-big", n_big, bud, s0), count_as="dbal_pairs_many_samples")

    # ------------------------------------------------ the three documented DBAL entry points called directly, the
    #                                                  caller keeps its arrays (plates of unequal sizes, NaN padding)
    #                                                  and calls again: identical inputs means the SAME arrays
    for ki in range(6 if tier == "quick" else 60):
        T_ = int(rng.integers(3, 9))
        sizes_ = [int(x) for x in rng.integers(1, 7, size=int(rng.integers(2, 6)))]
        if len(set(sizes_)) == 1:
            sizes_[0] += 1
        E_ = max(sizes_)
        preds_l = [rng.normal(size=(T_, e)) for e in sizes_]
        var_l = [np.exp(rng.normal(size=(T_, e))) for e in sizes_]
        homo = np.exp(rng.normal(size=(len(sizes_), T_)))
        preds = np.zeros((len(sizes_), T_, E_))
        var = np.full((len(sizes_), T_, E_), np.nan)
        for i_, e in enumerate(sizes_):
            preds[i_, :, :e] = preds_l[i_]
            var[i_, :, :e] = var_l[i_]
        dd = np.abs(rng.normal(size=(T_, T_)))
        dd = dd + dd.T
        np.fill_diagonal(dd, 0.0)
        s0 = int(rng.integers(0, 2**31))
        held = [preds, var, dd, homo] + preds_l + var_l
        before = [kit.raw_bytes(x) for x in held]
        fpk = lambda r: [float(x).hex() for x in np.asarray(r).ravel()]
        wk = {"sizes": sizes_, "n_thetas": T_, "seed": s0}
        pair(rec, "DBAL-kernel", "vectorized, NaN-padded variances", lambda: G.dbal_fast_gauss_scoring_vectorized(preds, var, dd, kit.twin_rng(s0), max_combos=5000), fpk, wk, case_key=("dbal-kernel-v", s0, tuple(sizes_)), count_as="dbal_kernel_pairs_on_the_callers_arrays")
        pair(rec, "DBAL-kernel", "heteroscedastic", lambda: G.dbal_fast_gaussian_scoring_heteroscedastic(preds_l, var_l, dd, kit.twin_rng(s0), max_combos=5000), fpk, wk, case_key=("dbal-kernel-het", s0, tuple(sizes_)), count_as="dbal_kernel_pairs_on_the_callers_arrays")
        pair(rec, "DBAL-kernel", "homoscedastic", lambda: G.dbal_fast_gaussian_scoring_homoscedastic(preds_l, homo, dd, kit.twin_rng(s0), max_combos=5000), fpk, wk, case_key=("dbal-kernel-hom", s0, tuple(sizes_)), count_as="dbal_kernel_pairs_on_the_callers_arrays")
        rec.count("oracle_evals")
        rec.check(before == [kit.raw_bytes(x) for x in held], "C18/DBAL-kernel/changes-its-inputs", "a DBAL entry point wrote into the arrays it was given: the caller's next call no longer sees the inputs it passed before", wk)

    # ------------------------------------------------ model training through sampling.sample
    n_tr = {"quick": 2, "thorough": 20}[tier]
    for ti in range(n_tr):
        for mname, cls in (("SparseDrugCombo", SparseDrugCombo), ("SparseDrugComboInteraction", SparseDrugComboInteraction)):
            kw = gen.realistic_screen_kwargs(rng, n_samples=(1, 3), n_drugs=(2, 4), n_rows=(6, 20), n_plates=(1, 3), observed="all", p_single=0.25)
            kw["observations"] = np.clip(kw["observations"], 0.05, 0.95)
            screen = Screen(**kw)
            sd, nch = int(rng.integers(0, 1000)), int(rng.integers(1, 4))
            ch = int(rng.integers(nch))
            D_ = int(rng.integers(1, 4))
            # the constructor's switches: defaults in half of the cases, any combination otherwise
            mkw = {}
            if rng.random() < 0.5:
                names = ["mult_gamma_proc", "local_shrinkage"] + (["fake_intercept", "individual_eff"] if mname == "SparseDrugCombo" else [])
                mkw = {k_: bool(rng.random() < 0.5) for k_ in names}
                rec.count("training_with_non_default_switches")

            def train(cls=cls, screen=screen, sd=sd, nch=nch, ch=ch, D_=D_, mkw=mkw):
                m = cls(experiment_space=ExperimentSpace.from_screen(screen), n_embedding_dimensions=D_, **mkw)
                m.add_observations(screen.subset_observed())
                return sampling.sample(m, ThetaHolder(n_thetas=3), seed=sd, n_chains=nch, chain_index=ch, n_burnin=2, thin=2)

            w = {"model": mname, "seed": sd, "n_chains": nch, "chain_index": ch, "rows": int(screen.size), "switches": mkw}
            pair(rec, "train/" + mname, "seed=%d" % sd, train, theta_fp, w, inj_every=97, case_key=("train", mname, sd, nch, ch, kit.array_hash(screen.observations)), count_as="training_pairs")

            # the same call repeated on the SAME model object: sampling.sample resets the model first, so what the
            # first call left behind is not an input of the second
            shared = cls(experiment_space=ExperimentSpace.from_screen(screen), n_embedding_dimensions=D_, **mkw)
            shared.add_observations(screen.subset_observed())
            nb = int(rng.integers(0, 3))

            def train_again(m=shared, sd=sd, nch=nch, ch=ch, nb=nb):
                return sampling.sample(m, ThetaHolder(n_thetas=3), seed=sd, n_chains=nch, chain_index=ch, n_burnin=nb, thin=2)

            # a user's model derived from the shipped one whose extra move draws through the model's documented
            # `rng` property (the generator the framework handed over with set_rng)
            def step_with_jitter(self, _base=cls):
                _base.step(self)
                self.wrapped_model.W0 = self.wrapped_model.W0 + np.float32(1e-3) * self.rng.normal(size=np.shape(self.wrapped_model.W0)).astype(np.float32)

            jittered = type("Jittered" + mname, (cls,), {"step": step_with_jitter})

            def train_sub(cls=jittered, screen=screen, sd=sd, nch=nch, ch=ch, D_=D_, mkw=mkw):
                m = cls(experiment_space=ExperimentSpace.from_screen(screen), n_embedding_dimensions=D_, **mkw)
                m.add_observations(screen.subset_observed())
                return sampling.sample(m, ThetaHolder(n_thetas=2), seed=sd, n_chains=nch, chain_index=ch, n_burnin=1, thin=1)

            if hasattr(cls(experiment_space=ExperimentSpace.from_screen(screen), n_embedding_dimensions=1).wrapped_model, "W0"):
                pair(rec, "train-user-subclass/" + mname, "seed=%d" % sd, train_sub, theta_fp, dict(w, subclass_draws_through="self.rng"), inj_every=97, case_key=("train-sub", mname, sd, nch, ch, kit.array_hash(screen.observations)), count_as="training_pairs_user_subclass")

            w2 = dict(w, n_burnin=nb, same_model_object=True)
            pair(rec, "train-same-model/" + mname, "seed=%d" % sd, train_again, theta_fp, w2, inj_every=97, case_key=("train-again", mname, sd, nch, ch, nb, kit.array_hash(screen.observations)), count_as="training_pairs_same_model")

    # ------------------------------------------------ training of a variational model through sampling.sample
    from batchie.core import BayesianModel, VIModel, Theta

    class DrawTheta(Theta):
        def __init__(self, v):
            self.v = v

    class WellBehavedVI(BayesianModel, VIModel):
        """draws only from the generator it is handed"""

        def __init__(self):
            self._rng = None

        def reset_model(self):
            pass

        def set_rng(self, rng):
            self._rng = rng

        @property
        def rng(self):
            return self._rng

        def sample(self, num_samples):
            return [DrawTheta(self._rng.normal(size=3).tobytes().hex()) for _ in range(num_samples)]

        def _add_observations(self, data):
            pass

        def n_obs(self):
            return 0

    for vi in range({"quick": 6, "thorough": 40}[tier]):
        sd = int(rng.choice([0, 1, 7, 2**31 + 5, int(rng.integers(0, 2**32))]))
        nth = int(rng.integers(1, 6))

        def train_vi(sd=sd, nth=nth):
            return sampling.sample(WellBehavedVI(), ThetaHolder(n_thetas=nth), seed=sd)

        pair(rec, "train/variational-model", "seed=%d" % sd, train_vi, lambda h: [h.get_theta(i).v for i in range(h.n_thetas)], {"seed": sd, "n_thetas": nth}, inj_every=7, case_key=("train-vi", sd, nth, vi), count_as="vi_training_pairs")

    # ------------------------------------------------ the shipped variational model (pyro / torch)
    if (tier == "quick" and shard == 3) or (tier == "thorough" and shard in (4, 5, 6, 7)):
        grid_model_pairs(rec, tier, rng)

    # ------------------------------------------------ CLI mains with --seed, in-process
    cli_pairs(rec, tier, rng)
    if tier == "thorough" and shard < 4:
        cli_subprocess_pairs(rec, rng, shard)
    elif tier == "quick" and shard < 2:
        # iteration order of sets / dicts of strings is a hidden input that only differs between processes
        cli_subprocess_pairs(rec, rng, shard, only=("prepare_retrospective_simulation",))


def grid_model_pairs(rec, tier, rng):
    """ComboGridFactorModel is trained by stochastic variational inference: mini-batch order, the smoothing grid points
    and every pyro sample statement are random. sampling.sample(model, seed=s) hands it a generator; the fit must be
    a function of it and leave numpy's, Python's and torch's global generators alone."""
    try:
        import torch
        from batchie.models.grid_combo import ComboGridFactorModel
    except Exception as e:  # torch / pyro not importable: nothing to judge
        rec.did_not_return("import-grid-model", e)
        return
    from batchie.data import Screen, ExperimentSpace
    from batchie import sampling
    from batchie.core import ThetaHolder

    def torch_state():
        return torch.random.get_rng_state().numpy().tobytes()

    for gi in range({"quick": 2, "thorough": 4}[tier]):
        drugs = np.array(["a", "b", "c", "d"][: int(rng.integers(3, 5))])
        n = int(rng.integers(12, 40))
        i1 = rng.integers(0, len(drugs), size=n)
        i2 = (i1 + rng.integers(1, len(drugs), size=n)) % len(drugs)  # combination rows only
        kw = dict(
            treatment_names=np.stack([drugs[i1], drugs[i2]], axis=1),
            treatment_doses=rng.choice([0.1, 1.0, 10.0], size=(n, 2)),
            sample_names=rng.choice(["s1", "s2"], size=n),
            plate_names=np.array(["p%d" % (i % 3) for i in range(n)]),
            observations=rng.uniform(0.05, 0.95, size=n),
            control_treatment_name="",
        )
        screen = Screen(**kw)
        sd = int(rng.integers(0, 2**31))
        nth = int(rng.integers(2, 4))  # the model cannot return a single sample (squeeze() of its 1 x ... tensors, IndexError)
        steps = int(rng.integers(3, 9))
        bs = int(rng.choice([5, 50000]))

        def train(screen=screen, drugs=drugs, sd=sd, nth=nth, steps=steps, bs=bs):
            m = ComboGridFactorModel(experiment_space=ExperimentSpace.from_screen(screen), n_unique_samples=2, unique_drug_names=drugs, log_conc_range=(-3.0, 3.0), n_grid=6, n_embedding_dimensions=2, n_sigma_embedding_dimensions=2, min_steps=steps, max_steps=steps, n_epochs=1, batch_size=bs)
            m.add_observations(screen.subset_observed())
            return sampling.sample(m, ThetaHolder(n_thetas=nth), seed=sd)

        def fp(h):
            out = []
            for i in range(h.n_thetas):
                d = h.get_theta(i).private_parameters_dict()
                out.append(sorted((k, np.asarray(v, dtype=np.float64).tobytes().hex()) for k, v in d.items()))
            return out

        pair(rec, "train/ComboGridFactorModel", "seed=%d" % sd, train, fp, {"seed": sd, "rows": n, "n_thetas": nth, "svi_steps": steps, "batch_size": bs}, inj_every=4001, case_key=("train-grid", sd, n, nth, steps, bs), count_as="grid_model_training_pairs", extra_state=torch_state)


def h5_fingerprint(path):
    import h5py

    out = []

    def visit(name, obj):
        if isinstance(obj, h5py.Dataset):
            out.append((name, kit.array_hash(obj[()]) if obj.shape != () else repr(obj[()])))
        for k, v in sorted(obj.attrs.items()):
            out.append((name + "@" + k, repr(v)))

    with h5py.File(path, "r") as f:
        for k, v in sorted(f.attrs.items()):
            out.append(("@" + k, repr(v)))
        f.visititems(visit)
    return sorted(out)


def make_cli_inputs(rng, tmp):
    from batchie.data import Screen

    kw = gen.realistic_screen_kwargs(rng, n_samples=(2, 3), n_drugs=(3, 4), n_rows=(24, 40), n_plates=(3, 5), observed="all", p_single=0.2, plate_per_sample=True)
    kw["observations"] = np.clip(kw["observations"], 0.05, 0.95)
    screen = Screen(**kw)
    f = os.path.join(tmp, "full.h5")
    screen.save_h5(f)
    return f


def cli_steps(tmp, tag, seed, full):
    """argv lists of the five seeded CLI steps; outputs are tagged so that two runs do not collide"""
    o = lambda n: os.path.join(tmp, "%s_%s" % (tag, n))
    return [
        ("prepare_retrospective_simulation", ["--data", full, "--training-output", o("train.h5"), "--test-output", o("test.h5"), "--plate-generator", "SampleSegregatingPermutationPlateGenerator", "--plate-generator-param", "max_plate_size=5", "--plate-smoother", "FixedSizeSmoother", "--plate-smoother-param", "plate_size=3", "--holdout-fraction", "0.2", "--seed", seed], [o("train.h5"), o("test.h5")]),
        ("train_model", ["--data", o("train.h5"), "--model", "SparseDrugCombo", "--model-param", "n_embedding_dimensions=2", "--output", o("thetas.h5"), "--n-samples", 4, "--n-burnin", 1, "--thin", 1, "--n-chains", 2, "--chain-index", 1, "--seed", seed], [o("thetas.h5")]),
        ("calculate_distance_matrix", ["--data", o("train.h5"), "--thetas", o("thetas.h5"), "--distance-metric", "MSEDistance", "--n-chunks", 1, "--chunk-index", 0, "--output", o("dist.h5")], [o("dist.h5")]),
        ("calculate_scores", ["--data", o("train.h5"), "--thetas", o("thetas.h5"), "--distance-matrix", o("dist.h5"), "--scorer", "RandomScorer", "--output", o("scores.h5"), "--seed", seed], [o("scores.h5")]),
        ("select_next_plate", ["--data", o("train.h5"), "--scores", o("scores.h5"), "--policy", "KPerSamplePlatePolicy", "--policy-param", "k=1", "--output", o("selected"), "--seed", seed], [o("selected")]),
        ("evaluate_model", ["--screen", o("test.h5"), "--thetas", o("thetas.h5"), "--output", o("eval.h5"), "--seed", seed], [o("eval.h5")]),
        # the plots are PDF files (creation time stamps): the numbers it reports are what is compared
        ("analyze_model_evaluation", ["--model-evaluation", o("eval.h5"), "--screen", o("test.h5"), "--thetas", o("thetas.h5"), "--output-dir", o("analysis"), "--seed", seed], [os.path.join(o("analysis"), "summary_statistics.json")]),
    ]


def _argv_for_second_run(argvA, outsA, tmp):
    """the step's own outputs (files, or the directory its output files live in) move from A_ to B_; its inputs stay"""
    a_, b_ = os.path.join(tmp, "A_"), os.path.join(tmp, "B_")
    out = []
    for a in argvA:
        if isinstance(a, str) and (a in outsA or any(o_.startswith(a + os.sep) for o_ in outsA)):
            out.append(a.replace(a_, b_))
        else:
            out.append(a)
    return out


def file_fp(path):
    if path.endswith(".h5"):
        return h5_fingerprint(path)
    with open(path) as f:
        return f.read()


def cli_pairs(rec, tier, rng):
    import importlib

    n = {"quick": 1, "thorough": 6}[tier]
    with kit.scratch_dir("vf-c18-") as tmp:
        for ci in range(n):
            full = make_cli_inputs(rng, tmp)
            sd = int(rng.integers(0, 100000))
            # run A of every step is produced first; run B of step k starts from run A's inputs,
            # so each step is judged on identical input files
            stepsA = cli_steps(tmp, "A", sd, full)
            for si, (name, argvA, outsA) in enumerate(stepsA):
                mod = importlib.import_module("batchie.cli." + name)
                outsB = [p.replace(os.path.join(tmp, "A_"), os.path.join(tmp, "B_")) for p in outsA]
                argvB = _argv_for_second_run(argvA, outsA, tmp)
                state = {"first": True}

                def run(mod=mod, argvA=argvA, argvB=argvB, outsA=outsA, outsB=outsB, state=state):
                    if state["first"]:
                        state["first"] = False
                        kit.run_cli(mod.main, argvA)
                        return outsA
                    kit.run_cli(mod.main, argvB)
                    return outsB

                w = {"cli": name, "seed": sd}
                pair(rec, "cli-" + name, "--seed %d" % sd, run, lambda outs: [file_fp(p) for p in outs], w, inj_every=211, case_key=("cli", name, sd, ci), count_as="cli_pairs")


def cli_subprocess_pairs(rec, rng, shard, only=None):
    """fresh interpreters, two PYTHONHASHSEED values (set/dict iteration order as a hidden input)"""
    with kit.scratch_dir("vf-c18s-") as tmp:
        full = make_cli_inputs(rng, tmp)
        sd = int(rng.integers(0, 100000))
        stepsA = cli_steps(tmp, "A", sd, full)
        for name, argvA, outsA in stepsA:
            if only is not None and name not in only:
                continue
            outsB = [p.replace(os.path.join(tmp, "A_"), os.path.join(tmp, "B_")) for p in outsA]
            argvB = _argv_for_second_run(argvA, outsA, tmp)
            fps = []
            ok = True
            hs_pair = ("1", "77") if shard % 2 == 0 else ("3", "1234")
            for argv, outs, hs in ((argvA, outsA, hs_pair[0]), (argvB, outsB, hs_pair[1])):
                env = dict(os.environ)
                env["PYTHONHASHSEED"] = hs
                env["PYTHONPATH"] = os.path.join(repoimport.REPO, "src")
                code = "import sys; sys.argv=['x']+sys.argv[1:]; from batchie.cli import %s as m; m.main()" % name
                try:
                    p = subprocess.run([sys.executable, "-B", "-c", code] + [str(a) for a in argv], env=env, stdout=subprocess.PIPE, stderr=subprocess.PIPE, timeout=900)
                except subprocess.TimeoutExpired:
                    ok = False
                    break
                if p.returncode != 0:
                    rec.did_not_return("subprocess-" + name)
                    ok = False
                    break
                fps.append([file_fp(x) for x in outs])
            if not ok:
                break
            rec.case(("cli-subprocess", name, sd, shard))
            rec.count("pairs_compared")
            rec.count("cli_subprocess_pairs")
            rec.check(fps[0] == fps[1], "C18/cli-%s/nondeterministic" % name, "%s --seed %d: two fresh processes (PYTHONHASHSEED %s and %s) wrote different output" % (name, sd, hs_pair[0], hs_pair[1]), {"cli": name, "seed": sd, "via": "subprocess"})
