"""C19 - the orchestration script resumes correctly after an interruption at any point."""
import glob as globmod
import hashlib
import json
import os
import shutil
import sys
import types

import numpy as np

from .. import kit, repoimport

PROP, NUM = "C19", 19
LEVEL = "fault_enumeration"
SHARDS = {"quick": 16, "thorough": 16}
TIMEOUT = {"quick": 1500, "thorough": 10800}
RULE = (
    "per configuration (mode, batch size, number of plates, chains/chunks, publication-order seed) the script is first run "
    "crash-free against the pipeline stub; then EVERY failpoint hit (for simulations of more than 2000 hits: every mutation failpoint and every third line failpoint) (each executed line of the script via sys.monitoring, "
    "before/after each mkdir inside makedirs, between the unlinks of rmtree, after each directory / file the stub "
    "publishes) is turned into a kill, the script is rerun (deleting exactly the directory it names as incomplete) until "
    "the simulation is complete, and the launch log, deletion log and final tree are checked off-line against the "
    "crash-free run; crash states already explored (same directory tree) are deduplicated; pairs of interruptions are "
    "enumerated for small configurations and sampled otherwise. A case is one crash scenario; distinct = hash of the "
    "directory tree at the moment(s) of the kill; non-trivial = at least one step was complete or partially published"
)
ASSUMPTIONS = [
    "pipeline stub instead of nextflow (not installed): a deterministic function of its inputs that publishes, in an order consistent with the process DAG of the repository's .nf workflows (files of concurrent processes in seeded random relative order), the file set the real modules publish under <outdir>/<name>/, preceded by work/ and pipeline_info/",
    "publication of one file is atomic; arbitrary non-DAG publication orders are not explored",
    "a step counts as completed from the moment its screen_metadata.json and its selected_plate are published, whether or not check_call returned",
    "prospective mode: the same command line is repeated; the reference is the crash-free sequence of 2-3 invocations",
    "a kill is modelled in-process by raising a BaseException subclass at the failpoint (the script has no handlers)",
]
REQUIRED = {"crash_scenarios": {"quick": 3000, "thorough": 60000}, "distinct_crash_states": {"quick": 300, "thorough": 3000}, "double_crash_scenarios": {"quick": 300, "thorough": 10000}, "configurations": {"quick": 10, "thorough": 40}, "continuations_judged": {"quick": 1500, "thorough": 20000}}


class Crash(BaseException):
    pass


class Stuck(BaseException):
    """bounded progress: more pipeline launches than any correct continuation needs"""


class PipelineError(Exception):
    """what subprocess.CalledProcessError is for the real pipeline"""


def H(x):
    return hashlib.sha1(x if isinstance(x, bytes) else str(x).encode()).hexdigest()[:12]


def read(path):
    with open(path, "rb") as f:
        return f.read()


# ----------------------------------------------------------------------------- simulated world
class Sim:
    def __init__(self, orch, root, cfg):
        self.orch = orch
        self.root = root
        self.cfg = cfg
        self.outdir = os.path.join(root, cfg.get("outdir_name", "out"))
        self.screen = os.path.join(root, "input.screen.h5")
        with open(self.screen, "w") as f:
            json.dump({"unobserved": list(range(cfg["plates"])), "lineage": "root%d" % cfg["plates"]}, f)
        self.hits = 0
        self.crash_at = None
        self.crash_tag = None
        self.launches = []
        self.deletions = []
        self.line_events = True
        self.max_launches = 10**9
        self.tags = None

    # ---- failpoints
    def failpoint(self, tag):
        self.hits += 1
        if self.tags is not None:
            self.tags.append(tag)
        if self.crash_at is not None and self.hits == self.crash_at:
            self.crash_tag = tag
            raise Crash(tag)

    def operator_brings_lab_results(self):
        """prospective mode: between two invocations the lab runs the proposed batch and the operator hands the next
        invocation a screen that contains those results - one more batch of results for every batch whose plates are
        all proposed. The same command line with the same file is only repeated while a batch is unfinished."""
        if self.cfg["mode"] != "prospective":
            return
        done = self.completed_steps()
        b = self.cfg["batch"]
        n_full = 0
        while all((n_full, j) in done for j in range(b)):
            n_full += 1
        screen = os.path.join(self.root, "input.screen.h5")
        with open(screen, "w") as f:
            json.dump({"unobserved": list(range(self.cfg["plates"])), "lineage": "root%d" % self.cfg["plates"], "lab_results_of_batches": n_full}, f)

    def completed_steps(self):
        out = set()
        for p in globmod.glob(os.path.join(globmod.escape(self.outdir), "iter_*", "plate_*")):
            if globmod.glob(os.path.join(globmod.escape(p), "*", "screen_metadata.json")) and globmod.glob(os.path.join(globmod.escape(p), "*", "selected_plate")):
                out.add(step_of(p))
        return out

    # ---- instrumented filesystem primitives handed to the script
    def makedirs(self, path, mode=0o777, exist_ok=False):
        parts = []
        p = os.path.abspath(path)
        while not os.path.isdir(p):
            parts.append(p)
            p = os.path.dirname(p)
        if not parts and not exist_ok:
            raise FileExistsError(path)
        for d in reversed(parts):
            self.failpoint("mkdir:before:" + os.path.relpath(d, self.root))
            os.mkdir(d)
            self.failpoint("mkdir:after:" + os.path.relpath(d, self.root))

    def rmtree(self, path, ignore_errors=False, onerror=None):
        if not os.path.lexists(path):
            if ignore_errors:
                return
            raise FileNotFoundError(path)
        self.deletions.append({"path": os.path.relpath(path, self.outdir), "by": "script", "completed_at_that_time": sorted(self.completed_steps())})
        for dirpath, dirnames, filenames in os.walk(path, topdown=False):
            for fn in filenames:
                self.failpoint("rmtree:unlink")
                os.remove(os.path.join(dirpath, fn))
            self.failpoint("rmtree:rmdir")
            os.rmdir(dirpath)

    # ---- the pipeline stub (bound to subprocess.check_call)
    def check_call(self, cmd, cwd=None, **kw):
        if len(self.launches) >= self.max_launches:
            raise Stuck("more than %d pipeline launches" % self.max_launches)
        a = parse(cmd)
        outdir = a["outdir"]
        name = a.get("name", "batchie")
        step = step_of(outdir)
        mode = a["mode"]
        nch, nck = self.cfg["n_chains"], self.cfg["n_chunks"]
        entry = {"ordinal": len(self.launches), "step": step, "mode": mode, "completed": False, "selection": None, "published": [], "completed_before_launch": step in self.completed_steps()}
        excludes = sorted(a["excludes"].split(",")) if a.get("excludes") else []

        def content(p):
            if p is None:
                return None
            if not os.path.exists(p):
                raise PipelineError("input file does not exist: %s" % p)
            return read(p)

        def expand(pattern):
            fs = sorted(globmod.glob(pattern))
            if not fs:
                raise PipelineError("no file matches %s" % pattern)
            return [read(f) for f in fs]

        sig = {"mode": mode, "initialize": a.get("initialize"), "reveal": a.get("reveal"), "name": name, "excludes": excludes}
        try:
            if mode == "retrospective" and a.get("initialize") == "true":
                sig["screen"] = H(content(a["screen"]))
            elif mode == "retrospective":
                sig["training_screen"] = H(content(a["training_screen"]))
                sig["test_screen"] = H(content(a["test_screen"]))
            elif mode == "prospective":
                sig["screen"] = H(content(a["screen"]))
            elif mode == "next_plate":
                sig["screen"] = H(content(a["screen"]))
                sig["thetas"] = sorted(H(x) for x in expand(a["thetas"]))
                sig["distance_matrix"] = sorted(H(x) for x in expand(a["distance_matrix"]))
            else:
                raise PipelineError("unknown mode %r" % mode)
        except PipelineError:
            entry["sig"] = sig
            entry["failed_to_start"] = True
            self.launches.append(entry)
            raise
        entry["sig"] = sig
        self.launches.append(entry)

        # nextflow's own directories appear first
        pub = os.path.join(outdir, name)
        for d in (os.path.join(outdir, "work"), os.path.join(outdir, "work", "ab"), os.path.join(outdir, "work", "ab", "cdef01"), os.path.join(outdir, "pipeline_info")):
            os.makedirs(d, exist_ok=True)
            self.failpoint("stub:dir:" + os.path.basename(d))

        files = {}  # name -> (deps, producer)
        state = {}

        staged = [a[k] for k in ("screen", "training_screen", "test_screen") if a.get(k) and os.path.exists(a[k])]

        def publish(fn, text):
            # a task works in its own directory below the run's work directory: its inputs are staged there under
            # their base names, its output is written there (<task dir>/<name>/<file>) and only then published
            h = H("%s|%r" % (fn, step))
            tdir = os.path.join(outdir, "work", h[:2], h[2:32])
            os.makedirs(os.path.join(tdir, name), exist_ok=True)
            for src in staged:
                with open(os.path.join(tdir, os.path.basename(src)), "wb") as f:
                    f.write(read(src))
            with open(os.path.join(tdir, ".command.sh"), "w") as f:
                f.write("# " + fn)
            self.failpoint("stub:task-started:" + fn)
            with open(os.path.join(tdir, name, fn), "w") as f:
                f.write(text)
            self.failpoint("stub:task-output:" + fn)
            os.makedirs(pub, exist_ok=True)
            with open(os.path.join(pub, fn), "w") as f:
                f.write(text)
            entry["published"].append(fn)
            if fn == "selected_plate":
                entry["selection"] = text
            if "screen_metadata.json" in entry["published"] and "selected_plate" in entry["published"]:
                entry["completed"] = True
            self.failpoint("stub:published:" + fn)

        # ---- what each process computes (deterministic functions of the inputs)
        tasks = []  # (name, deps, fn)
        if mode == "retrospective" and a.get("initialize") == "true":
            src = json.loads(content(a["screen"]))

            def prep():
                un = list(src["unobserved"])
                first = un[int(H(src["lineage"] + "init"), 16) % len(un)]
                un.remove(first)
                state["train"] = json.dumps({"unobserved": un, "lineage": H(src["lineage"] + "train")})
                state["test"] = json.dumps({"holdout_of": src["lineage"]})

            prep()
            tasks.append(("training.screen.h5", [], lambda: state["train"]))
            tasks.append(("test.screen.h5", [], lambda: state["test"]))
            base_deps = ["training.screen.h5", "test.screen.h5"]
        elif mode == "retrospective":
            state["train"] = content(a["training_screen"]).decode()
            state["test"] = content(a["test_screen"]).decode()
            base_deps = []
        elif mode == "prospective":
            state["train"] = content(a["screen"]).decode()
            base_deps = []
        else:
            state["train"] = content(a["screen"]).decode()
            base_deps = []

        if mode in ("retrospective", "prospective"):
            for c in range(nch):
                tasks.append(("thetas_%d.h5" % c, list(base_deps), lambda c=c: json.dumps({"trained_on": H(state["train"]), "chain": c})))
            th = ["thetas_%d.h5" % c for c in range(nch)]
            th_content = lambda: sorted(json.dumps({"trained_on": H(state["train"]), "chain": c}) for c in range(nch))
            tasks.append(("model_evaluation.h5", th, lambda: json.dumps({"eval": H(str(th_content())), "on": H(state.get("test", state["train"]))})))
            tasks.append(("model_evaluation_analysis", ["model_evaluation.h5"], lambda: "analysis"))
            for k in range(nck):
                tasks.append(("distance_matrix_chunk_%d.h5" % k, th, lambda k=k: json.dumps({"dist_of": H(str(th_content())), "chunk": k})))
            dist_deps = ["distance_matrix_chunk_%d.h5" % k for k in range(nck)]
            thetas_sig = lambda: H(str(th_content()))
        else:
            th_in = expand(a["thetas"])
            dist_deps = []
            thetas_sig = lambda: H(str(sorted(x.decode() for x in th_in)))

        for k in range(nck):
            tasks.append(("score_chunk_%d.h5" % k, list(dist_deps), lambda k=k: json.dumps({"scores_for": H(state["train"]), "thetas": thetas_sig(), "excludes": excludes, "chunk": k})))
        score_deps = ["score_chunk_%d.h5" % k for k in range(nck)]

        def select():
            scr = json.loads(state["train"])
            cands = [p for p in scr["unobserved"] if str(p) not in excludes]
            if not cands:
                return "-1"
            return str(cands[int(H(state["train"] + "|" + ",".join(excludes) + "|" + thetas_sig()), 16) % len(cands)])

        tasks.append(("selected_plate", score_deps, select))
        reveal = mode == "retrospective" or (mode == "next_plate" and a.get("reveal") == "true")
        if reveal:
            def advanced():
                scr = json.loads(state["train"])
                sel = select()
                if sel == "-1" or int(sel) not in scr["unobserved"]:
                    raise PipelineError("reveal_plate: nothing to reveal (%s)" % sel)
                un = [p for p in scr["unobserved"] if p != int(sel)]
                state["adv"] = json.dumps({"unobserved": un, "lineage": H(scr["lineage"] + "+" + sel)})
                return state["adv"]

            tasks.append(("advanced_screen.h5", ["selected_plate"], advanced))
            tasks.append(("screen_metadata.json", ["advanced_screen.h5"], lambda: json.dumps({"n_unobserved_plates": len(json.loads(state["adv"])["unobserved"])})))
        else:
            # PROSPECTIVE / next_plate without reveal: metadata is extracted from the INPUT screen, it depends on nothing else
            tasks.append(("screen_metadata.json", [], lambda: json.dumps({"n_unobserved_plates": len(json.loads(state["train"])["unobserved"])})))

        # ---- publish in a seeded random linear extension of the DAG
        order_rng = np.random.default_rng([self.cfg["order_seed"], step[0], step[1]])
        done = set()
        pending = list(tasks)
        while pending:
            ready = [t for t in pending if all(d in done for d in t[1])]
            t = ready[int(order_rng.integers(len(ready)))]
            pending.remove(t)
            publish(t[0], t[2]())
            done.add(t[0])
        return 0


def parse(cmd):
    a = {}
    i = 0
    while i < len(cmd):
        t = cmd[i]
        if t.startswith("--excludes="):
            a["excludes"] = t.split("=", 1)[1]
        elif t.startswith("--") and i + 1 < len(cmd):
            a[t[2:]] = cmd[i + 1]
            i += 1
        i += 1
    return a


def step_of(path):
    it, pl = path.rstrip("/").split(os.sep)[-2:]
    return (int(it.split("_")[1]), int(pl.split("_")[1]))


def tree(outdir, orchestration_only=False):
    out = []
    for dirpath, dirnames, filenames in os.walk(outdir):
        dirnames.sort()
        rel = os.path.relpath(dirpath, outdir)
        if orchestration_only and ("work" in rel.split(os.sep) or "pipeline_info" in rel.split(os.sep)):
            continue
        if not orchestration_only:
            out.append((rel, None))
        for fn in sorted(filenames):
            if orchestration_only and fn.startswith("model_evaluation"):
                continue
            out.append((os.path.join(rel, fn), H(read(os.path.join(dirpath, fn)))))
    return sorted(out)


# ----------------------------------------------------------------------------- driving the script
class Driver:
    TOOL = 3

    def __init__(self, rec, optimize=0):
        self.rec = rec
        # optimize=1: the script compiled the way `python -O batchie.py` (or PYTHONOPTIMIZE=1 in the job environment)
        # runs it - assert statements are stripped
        self.optimize = optimize
        self.orch = repoimport.load_orchestrator("orch_c19", optimize=optimize)
        self.script = self.orch.__file__
        self.sim = None
        m = sys.monitoring
        try:
            m.use_tool_id(self.TOOL, "vf-c19")
        except ValueError:
            m.free_tool_id(self.TOOL)
            m.use_tool_id(self.TOOL, "vf-c19")
        m.register_callback(self.TOOL, m.events.LINE, self._line)
        m.set_events(self.TOOL, m.events.LINE)

    def close(self):
        m = sys.monitoring
        m.set_events(self.TOOL, 0)
        m.register_callback(self.TOOL, m.events.LINE, None)
        m.free_tool_id(self.TOOL)

    def _line(self, code, line):
        if code.co_filename != self.script:
            return sys.monitoring.DISABLE
        s = self.sim
        if s is not None and s.line_events:
            s.failpoint("line:%d" % line)

    def bind(self, sim):
        self.sim = sim
        o = self.orch
        o.subprocess = types.SimpleNamespace(check_call=sim.check_call, CalledProcessError=PipelineError)
        o.shutil = types.SimpleNamespace(rmtree=sim.rmtree)
        proxy = types.SimpleNamespace()
        for k in dir(os):
            if not k.startswith("__"):
                setattr(proxy, k, getattr(os, k))
        proxy.makedirs = sim.makedirs
        o.os = proxy

    def invoke(self, sim):
        """one invocation of the script's main() - in a real deployment a new process: module-level state of the
        script (caches, counters) does not survive from one invocation to the next, so the module is executed afresh"""
        self.sim = None  # (no failpoints while the module body runs: nothing on disk is touched before main())
        self.orch = repoimport.load_orchestrator("orch_c19", optimize=self.optimize)
        self.bind(sim)
        sim.operator_brings_lab_results()
        screen_arg, out_arg = sim.screen, sim.outdir
        cwd0 = os.getcwd()
        if sim.cfg.get("relative_paths"):
            # the operator works in the project directory and names files relative to it
            os.chdir(sim.root)
            screen_arg, out_arg = os.path.relpath(sim.screen, sim.root), os.path.relpath(sim.outdir, sim.root)
        argv = ["batchie.py", "--mode", sim.cfg["mode"], "--screen", screen_arg, "--batch-size", str(sim.cfg["batch"]), "--outdir", out_arg, "--n_chains", str(sim.cfg["n_chains"])]
        if sim.cfg.get("omit_batch_size"):
            # batch size 1 is the documented default: the operator does not spell it out
            i_ = argv.index("--batch-size")
            del argv[i_ : i_ + 2]
        old = sys.argv
        sys.argv = argv
        try:
            self.orch.main()
            return ("exit0", None)
        except Crash as c:
            return ("crashed", str(c))
        except Stuck as c:
            return ("no-progress", str(c))
        except Exception as e:
            # the operator reads the message, not the exception class: whatever is raised, a message that names a
            # directory to delete is followed
            msg = str(e)
            if "Consider deleting this directory" in msg:
                return ("operator", msg.split(": ")[-1].strip())
            return ("error", "%s: %s" % (type(e).__name__, e))
        finally:
            sys.argv = old
            os.chdir(cwd0)


def run_to_completion(drv, sim, target_steps, crashes, max_invocations, seen=None):
    """crashes: list of failpoint hit numbers, one per successive invocation (None = no kill)"""
    events = []
    crashes = list(crashes)
    inv = 0
    states = []
    while True:
        inv += 1
        if inv > max_invocations:
            events.append(("no-progress", None))
            return events, states
        sim.hits = 0
        sim.crash_at = crashes.pop(0) if crashes else None
        status, info = drv.invoke(sim)
        events.append((status, info))
        if status == "crashed":
            states.append(H(str(tree(sim.outdir))))
            if seen is not None and not crashes:
                # last planned kill: the continuation depends on the directory tree only
                if states[-1] in seen:
                    events.append(("continuation-already-explored", None))
                    return events, states
                seen.add(states[-1])
            continue
        if sim.crash_at is not None:
            # the invocation ended before the chosen hit number was reached
            events.append(("crash-point-not-reached", sim.crash_at))
            sim.crash_at = None
        if status == "operator":
            d = info
            comp = sim.completed_steps()
            is_step = os.path.basename(os.path.dirname(d)).startswith("iter_") and os.path.basename(d).startswith("plate_")
            sim.deletions.append({"path": os.path.relpath(d, sim.outdir), "by": "operator", "completed_at_that_time": sorted(comp), "names_completed_step": bool(is_step and step_of(d) in comp)})
            if os.path.isdir(d):
                shutil.rmtree(d)
            else:
                events.append(("operator-dir-missing", d))
                return events, states
            continue
        if status in ("error", "no-progress"):
            return events, states
        # exit0
        done = sim.completed_steps()
        if sim.cfg["mode"] == "retrospective" or len(done) >= target_steps:
            return events, states


def reference(drv, root, cfg):
    sim = Sim(drv.orch, root, cfg)
    drv.bind(sim)
    # an uninterrupted execution launches the pipeline once per step; a run that launches it many times more often
    # than there are steps is not progressing (the cap is far above anything a correct script needs)
    sim.max_launches = 4 * (cfg["plates"] + cfg["batch"] * (cfg.get("invocations", 1) + 2)) + 10
    total_hits = []
    events = []
    n_inv = 1 if cfg["mode"] == "retrospective" else cfg["invocations"]
    # prospective mode: one invocation runs one batch and the same command line starts the next batch when
    # it is repeated, so an uninterrupted execution is the unbounded sequence of invocations; the reference
    # records two more batches than the faulty runs are required to complete
    extra = 0 if cfg["mode"] == "retrospective" else 2
    completed_target = None
    hit_tags = []
    for i in range(n_inv + extra):
        sim.hits = 0
        sim.crash_at = None
        sim.tags = [] if i < n_inv else None
        status, info = drv.invoke(sim)
        events.append((status, info))
        if i < n_inv:
            total_hits.append(sim.hits)
            hit_tags.append(sim.tags)
        sim.tags = None
        if status != "exit0":
            break
        if i == n_inv - 1:
            completed_target = sorted(sim.completed_steps())
    ref = {"events": events, "hits": total_hits, "launches": sim.launches, "steps": {}, "tree": dict(tree(sim.outdir, orchestration_only=True)), "completed": completed_target or [], "completed_ext": sorted(sim.completed_steps()), "deletions": sim.deletions, "hit_tags": hit_tags}
    for l in sim.launches:
        ref["steps"].setdefault(l["step"], l)
    return ref


def judge(rec, cfg, ref, sim, events, label, w):
    """off-line oracle over the launch log, deletion log and final tree"""
    key = "C19/%s" % cfg["mode"]
    ok = True

    def bad(k, msg):
        nonlocal ok
        ok = False
        rec.violation("%s/%s" % (key, k), "%s [%s]" % (msg, label), w)

    rec.count("oracle_evals")
    last = events[-1][0]
    if last == "error":
        bad("rerun-fails", "rerunning the script after the interruption fails with %s" % events[-1][1])
    elif last == "no-progress":
        bad("no-progress", "the simulation did not complete within the bounded number of reruns")
    elif last == "operator-dir-missing":
        bad("names-missing-directory", "the script names a directory that does not exist: %s" % events[-1][1])
    completed_launches = {}
    for l in sim.launches:
        r = ref["steps"].get(l["step"])
        if r is None:
            bad("unexpected-step-launched", "step %r was launched, the uninterrupted run never runs it" % (l["step"],))
            continue
        if l.get("completed_before_launch"):
            bad("completed-step-executed-again", "step %r was launched although it was already complete" % (l["step"],))
        if l["sig"] != r["sig"]:
            diff = sorted(k for k in set(l["sig"]) | set(r["sig"]) if l["sig"].get(k) != r["sig"].get(k))
            bad("step-launched-with-different-inputs", "step %r launched with different %s than in the uninterrupted run: %r vs %r" % (l["step"], "/".join(diff), {k: l["sig"].get(k) for k in diff}, {k: r["sig"].get(k) for k in diff}))
        if l["completed"]:
            completed_launches.setdefault(l["step"], []).append(l)
    for st, ls in completed_launches.items():
        if len(ls) > 1:
            bad("step-executed-twice", "step %r completed %d times" % (st, len(ls)))
        r = ref["steps"].get(st)
        if r is not None and ls[-1]["selection"] != r["selection"]:
            bad("different-selection-recorded", "step %r recorded selection %r, the uninterrupted run %r" % (st, ls[-1]["selection"], r["selection"]))
    for d in sim.deletions:
        p = d["path"].split(os.sep)
        hit = [s for s in d["completed_at_that_time"] if (len(p) >= 2 and p[0] == "iter_%d" % s[0] and p[1] == "plate_%d" % s[1]) or (len(p) == 1 and p[0] == "iter_%d" % s[0]) or p == ["."]]
        if hit:
            bad("completed-step-deleted", "%s deleted %s which holds completed step(s) %r" % (d["by"], d["path"], hit))
        if d.get("names_completed_step"):
            bad("names-completed-step-as-incomplete", "the script asked the operator to delete completed step %s" % d["path"])
    if ok and last == "exit0":
        done = sorted(sim.completed_steps())
        contiguous = done == ref["completed_ext"][: len(done)]
        if not (set(ref["completed"]) <= set(done)) or not contiguous:
            bad("step-skipped-or-missing", "completed steps %r, the uninterrupted run completes %r (then %r)" % (done, ref["completed"], ref["completed_ext"]))
        else:
            a, b = dict(tree(sim.outdir, orchestration_only=True)), ref["tree"]
            pref = tuple(os.path.join("iter_%d" % s[0], "plate_%d" % s[1]) + os.sep for s in done)
            diff = sorted(k for k in set(a) | set(b) if k.startswith(pref) and a.get(k) != b.get(k))
            if diff:
                bad("final-tree-differs", "orchestration files of the completed steps differ from the uninterrupted run: %r" % diff[:6])
    return ok


def judge_reference(rec, cfg, ref, w):
    key = "C19/%s" % cfg["mode"]
    rec.count("oracle_evals")
    rec.count("uninterrupted_runs_judged")
    b = cfg["batch"]
    expected = (0, 0)
    for l in ref["launches"]:
        if l.get("completed_before_launch"):
            rec.violation(key + "/completed-step-executed-again", "the uninterrupted run launched step %r although it was already complete" % (l["step"],), w)
            return
        if l["step"] != expected:
            rec.violation(key + "/step-skipped-or-missing", "the uninterrupted run launched step %r where step %r is due" % (l["step"], expected), w)
            return
        expected = (expected[0], expected[1] + 1) if expected[1] + 1 < b else (expected[0] + 1, 0)
    # the plates of one batch are chosen with the model trained at the start of THAT batch: within an iteration every
    # later step reads one and the same set of posterior-sample / distance files, and no two iterations share theirs
    # (each iteration's model is trained on another training screen)
    model_of = {}
    for l in ref["launches"]:
        sg = l.get("sig") or {}
        if sg.get("mode") == "next_plate" and "thetas" in sg:
            m_ = (tuple(sg["thetas"]), tuple(sg.get("distance_matrix", ())))
            it_ = l["step"][0]
            if it_ in model_of and model_of[it_] != m_:
                rec.violation(key + "/step-launched-with-another-model", "the uninterrupted run launched step %r with other posterior-sample / distance files than the earlier steps of its batch" % (l["step"],), w)
                return
            model_of[it_] = m_
    seen_ = {}
    for it_, m_ in sorted(model_of.items()):
        if m_ in seen_:
            rec.violation(key + "/step-launched-with-another-model", "the uninterrupted run chose the later plates of iteration %d with the model files of iteration %d" % (it_, seen_[m_]), w)
            return
        seen_[m_] = it_
    rec.count("uninterrupted_runs_whose_models_were_compared_across_iterations", int(len(model_of) >= 2))
    for d in ref["deletions"]:
        p = d["path"].split(os.sep)
        hit = [s for s in d["completed_at_that_time"] if (len(p) >= 2 and p[0] == "iter_%d" % s[0] and p[1] == "plate_%d" % s[1]) or (len(p) == 1 and p[0] == "iter_%d" % s[0]) or p == ["."]]
        if hit:
            rec.violation(key + "/completed-step-deleted", "the uninterrupted run deleted %s which holds completed step(s) %r" % (d["path"], hit), w)
            return


OUTDIR_NAMES = ["run[1]", "lab [2024-03] out", "out[a-z]", "res*lts", "what?", "screens[v2]" + os.sep + "out"]


def configurations(tier, rng):
    cfgs = []
    if tier == "quick":
        # (13, 1) and (13, 12): two-digit iteration / plate directory names (numeric, not lexicographic, order)
        retro = [(2, 1), (3, 2), (5, 1), (5, 2), (5, 3), (4, 4), (6, 4), (13, 1), (13, 12)]
        pro = [(1, 2), (2, 2), (3, 2), (2, 3)]
        seeds = [0]
    else:
        retro = [(p, b) for p in (2, 3, 4, 5, 6, 7) for b in (1, 2, 3, 4) if not (p == 2 and b > 2)] + [(13, 1), (13, 12), (14, 3)]
        pro = [(b, k) for b in (1, 2, 3, 4) for k in (2, 3)] + [(11, 2)]
        seeds = [0, 1, 2]
    for os_ in seeds:
        for p, b in retro:
            cfgs.append({"mode": "retrospective", "plates": p, "batch": b, "n_chains": 1 + (p + b + os_) % 2, "n_chunks": 1 + (p + os_) % 2, "order_seed": os_})
        for b, k in pro:
            cfgs.append({"mode": "prospective", "plates": max(6, b + 2), "batch": b, "invocations": k, "n_chains": 1 + (b + os_) % 2, "n_chunks": 1 + (k + os_) % 2, "order_seed": os_})
    n1 = 0
    for c in cfgs:
        if c["batch"] == 1:
            n1 += 1
            c["omit_batch_size"] = bool(n1 % 2)  # every second batch-size-1 configuration relies on the default
    for i, c in enumerate(cfgs):
        c["relative_paths"] = bool(i % 2)  # every second configuration names the screen and the output directory relative to the working directory
        if i % 4 >= 2:
            # output directories whose names carry characters that mean something to a file-name pattern
            c["outdir_name"] = OUTDIR_NAMES[(i // 4) % len(OUTDIR_NAMES)]
    return cfgs


def run_shard(rec, tier, seed, shard, nshards):
    rng = kit.rng_for(seed, NUM, shard)
    stripped = bool(shard % 3 == 1 or not __debug__)
    drv = Driver(rec, optimize=1 if stripped else 0)
    rec.count("shards_with_the_script_compiled_as_under_python_O" if stripped else "shards_with_the_script_compiled_normally")
    cfgs = configurations(tier, rng)
    try:
        with kit.scratch_dir("vf-c19-", fast=True) as tmp:
            # every configuration is split over the shards by crash-point number
            for ci, cfg in enumerate(cfgs):
                root0 = os.path.join(tmp, "ref%d" % ci)
                os.makedirs(root0)
                ref = reference(drv, root0, cfg)
                shutil.rmtree(root0)
                w0 = {"cfg": cfg}
                if any(e[0] != "exit0" for e in ref["events"]) or not ref["completed"]:
                    rec.violation("C19/%s/crash-free-run-fails" % cfg["mode"], "the uninterrupted run itself ends with %r" % (ref["events"],), w0)
                    continue
                if shard == ci % nshards:
                    rec.count("configurations")
                    # the uninterrupted run is itself an execution the property speaks about
                    judge_reference(rec, cfg, ref, w0)
                target = len(ref["completed"])
                max_inv = 6 * target + 12
                n_inv = len(ref["hits"])
                points = [(i, k) for i in range(n_inv) for k in range(1, ref["hits"][i] + 1)]
                if sum(ref["hits"]) > 2000:
                    # long simulations: every failpoint at a filesystem mutation, every third line failpoint (the
                    # lines between two mutations leave the same directory tree behind)
                    points = [(i, k) for (i, k) in points if not ref["hit_tags"][i][k - 1].startswith("line:") or k % 3 == 0]
                    rec.count("configurations_with_thinned_line_failpoints")
                mine = points[shard::nshards]
                seen_states = set()
                seen_double = set()
                firsts = []
                for (inv_i, k) in mine:
                    root = os.path.join(tmp, "s")
                    os.makedirs(root)
                    sim = Sim(drv.orch, root, cfg)
                    sim.max_launches = 3 * target + 8
                    drv.bind(sim)
                    crashes = [None] * inv_i + [k]
                    events, states = run_to_completion(drv, sim, target, crashes, max_inv, seen=seen_states)
                    st = states[0] if states else "none"
                    rec.case(("single", json.dumps(cfg, sort_keys=True), st), nontrivial=bool(sim.launches))
                    rec.count("crash_scenarios")
                    rec.count("crash_scenarios_" + cfg["mode"])
                    tag = sim.crash_tag
                    rec.count("failpoint_kind_" + (tag.split(":")[0] if tag else "none"))
                    if events[-1][0] == "continuation-already-explored":
                        rec.count("crash_scenarios_deduplicated")
                        shutil.rmtree(root)
                        continue
                    rec.count("distinct_crash_states")
                    rec.count("continuations_judged")
                    firsts.append((inv_i, k, st))
                    w = {"cfg": cfg, "interrupted_invocation": inv_i, "failpoint_hit": k, "failpoint": tag, "events": events[:12], "launches": [[l["step"], l["completed"], l["selection"]] for l in sim.launches][:20]}
                    judge(rec, cfg, ref, sim, events, "killed at %s (hit %d of invocation %d)" % (tag, k, inv_i + 1), w)
                    if ci == 0 and k == mine[0][1] and shard == 0:
                        rec.sample({"cfg": cfg, "failpoint": tag, "events_after_kill": events[:6], "reference_steps": [list(s) for s in ref["completed"]], "reference_hits": ref["hits"]})
                    shutil.rmtree(root)
                # ---- pairs of interruptions: second kill during the first rerun after each distinct first state
                small = target <= 3
                budget = (40 if small else 12) if tier == "quick" else (400 if small else 60)
                for (inv_i, k, st) in firsts:
                    # second crash point: sampled hit numbers of the next invocation
                    n2 = ref["hits"][min(inv_i, n_inv - 1)]
                    ks2 = sorted(set(int(x) for x in rng.integers(1, max(2, n2), size=max(1, budget // max(1, len(firsts)) + 1))))
                    for k2 in ks2:
                        root = os.path.join(tmp, "d")
                        os.makedirs(root)
                        sim = Sim(drv.orch, root, cfg)
                        sim.max_launches = 4 * target + 10
                        drv.bind(sim)
                        events, states = run_to_completion(drv, sim, target, [None] * inv_i + [k, k2], max_inv, seen=seen_double)
                        rec.case(("double", json.dumps(cfg, sort_keys=True), tuple(states)), nontrivial=True)
                        rec.count("double_crash_scenarios")
                        if events[-1][0] == "continuation-already-explored":
                            rec.count("double_crash_scenarios_deduplicated")
                            shutil.rmtree(root)
                            continue
                        rec.count("continuations_judged")
                        w = {"cfg": cfg, "interrupted_invocation": inv_i, "failpoint_hits": [k, k2], "events": events[:14], "launches": [[l["step"], l["completed"], l["selection"]] for l in sim.launches][:20]}
                        judge(rec, cfg, ref, sim, events, "killed twice (hits %d then %d)" % (k, k2), w)
                        shutil.rmtree(root)
    finally:
        drv.close()
    if tier == "thorough":
        subprocess_scenarios(rec, rng, shard, nshards)


# ----------------------------------------------------------------------------- subprocess variant (thorough)
class LogSim:
    """what judge() needs, rebuilt from the stub's launch log of real subprocess runs"""

    def __init__(self, root, cfg, log):
        self.root, self.cfg = root, cfg
        self.outdir = os.path.join(root, cfg.get("outdir_name", "out"))
        self.log = log
        self.deletions = []

    @property
    def launches(self):
        out = []
        if os.path.exists(self.log):
            for line in open(self.log):
                e = json.loads(line)
                e["step"] = tuple(e["step"])
                out.append(e)
        return out

    completed_steps = Sim.completed_steps
    operator_brings_lab_results = Sim.operator_brings_lab_results


def subprocess_scenarios(rec, rng, shard, nshards):
    """The real script in a real interpreter, the executable stub on PATH, kills by SIGKILL at stub failpoints."""
    import subprocess

    vf_root = os.path.dirname(os.path.dirname(os.path.dirname(os.path.abspath(__file__))))
    stub_dir = os.path.join(vf_root, "vf", "stubs")
    script = os.path.join(repoimport.REPO, "nextflow", "scripts", "batchie.py")
    cfgs = [
        {"mode": "retrospective", "plates": 4, "batch": 2, "n_chains": 1, "n_chunks": 1, "order_seed": 5},
        {"mode": "prospective", "plates": 6, "batch": 2, "invocations": 2, "n_chains": 1, "n_chunks": 1, "order_seed": 5},
        {"mode": "retrospective", "plates": 5, "batch": 3, "n_chains": 2, "n_chunks": 1, "order_seed": 6},
        {"mode": "prospective", "plates": 6, "batch": 3, "invocations": 2, "n_chains": 1, "n_chunks": 2, "order_seed": 6},
        {"mode": "retrospective", "plates": 3, "batch": 2, "n_chains": 1, "n_chunks": 1, "order_seed": 7, "outdir_name": "run[1]"},
        {"mode": "retrospective", "plates": 4, "batch": 2, "n_chains": 1, "n_chunks": 1, "order_seed": 8, "python_O": True},
    ]
    cfgs[1]["python_O"] = True

    def invoke(root, cfg, kill_at):
        env = dict(os.environ)
        env.update(VF_ROOT=vf_root, VF_C19_CFG=json.dumps(cfg), VF_C19_LOG=os.path.join(root, "launch.log"), VF_C19_COUNTER=os.path.join(root, "hits"), VF_C19_ROOT=root, VF_C19_KILL_AT=str(kill_at or 0), VF_C19_REPO=repoimport.REPO, PATH=stub_dir + os.pathsep + env.get("PATH", ""))
        if os.path.exists(env["VF_C19_COUNTER"]):
            os.remove(env["VF_C19_COUNTER"])
        LogSim(root, cfg, env["VF_C19_LOG"]).operator_brings_lab_results()
        p = subprocess.run([sys.executable, "-B"] + (["-O"] if cfg.get("python_O") else []) + [script, "--mode", cfg["mode"], "--screen", os.path.join(root, "input.screen.h5"), "--batch-size", str(cfg["batch"]), "--outdir", os.path.join(root, cfg.get("outdir_name", "out")), "--n_chains", str(cfg["n_chains"])], env=env, stdout=subprocess.PIPE, stderr=subprocess.PIPE, timeout=300)
        hits = int(open(env["VF_C19_COUNTER"]).read()) if os.path.exists(env["VF_C19_COUNTER"]) else 0
        err = p.stderr.decode("utf-8", "replace")
        if p.returncode == 0:
            return ("exit0", None), hits
        if p.returncode == -9:
            return ("crashed", "SIGKILL"), hits
        if "Consider deleting this directory" in err:
            return ("operator", err.strip().splitlines()[-1].split(": ")[-1].strip()), hits
        return ("error", err.strip().splitlines()[-1][:300] if err.strip() else "rc=%d" % p.returncode), hits

    def fresh(tmp, name, cfg):
        root = os.path.join(tmp, name)
        os.makedirs(root)
        with open(os.path.join(root, "input.screen.h5"), "w") as f:
            json.dump({"unobserved": list(range(cfg["plates"])), "lineage": "root%d" % cfg["plates"]}, f)
        return root

    with kit.scratch_dir("vf-c19p-", fast=True) as tmp:
        for ci, cfg in enumerate(cfgs):
            n_inv = 1 if cfg["mode"] == "retrospective" else cfg["invocations"]
            extra = 0 if cfg["mode"] == "retrospective" else 2
            root = fresh(tmp, "ref", cfg)
            hits = []
            target = None
            ok = True
            sim = LogSim(root, cfg, os.path.join(root, "launch.log"))
            for i in range(n_inv + extra):
                ev, h = invoke(root, cfg, 0)
                if ev[0] != "exit0":
                    rec.violation("C19/%s/crash-free-run-fails" % cfg["mode"], "subprocess reference run ends with %r" % (ev,), {"cfg": cfg})
                    ok = False
                    break
                if i < n_inv:
                    hits.append(h)
                if i == n_inv - 1:
                    target = sorted(sim.completed_steps())
            if not ok:
                shutil.rmtree(root)
                continue
            ref = {"steps": {}, "tree": dict(tree(sim.outdir, orchestration_only=True)), "completed": target, "completed_ext": sorted(sim.completed_steps())}
            for l in sim.launches:
                ref["steps"].setdefault(l["step"], l)
            shutil.rmtree(root)
            points = [(i, k) for i in range(n_inv) for k in range(1, hits[i] + 1)]
            for (inv_i, k) in points[shard::nshards]:
                root = fresh(tmp, "s", cfg)
                sim = LogSim(root, cfg, os.path.join(root, "launch.log"))
                events = []
                plan = [0] * inv_i + [k]
                for it in range(6 * len(target) + 12):
                    ev, _h = invoke(root, cfg, plan.pop(0) if plan else 0)
                    events.append(ev)
                    if ev[0] == "crashed":
                        continue
                    if ev[0] == "operator":
                        d = ev[1]
                        comp = sim.completed_steps()
                        sim.deletions.append({"path": os.path.relpath(d, sim.outdir), "by": "operator", "completed_at_that_time": sorted(comp), "names_completed_step": bool(os.path.basename(d).startswith("plate_") and step_of(d) in comp)})
                        if os.path.isdir(d):
                            shutil.rmtree(d)
                            continue
                        events.append(("operator-dir-missing", d))
                        break
                    if ev[0] == "error":
                        break
                    if not plan and (cfg["mode"] == "retrospective" or len(sim.completed_steps()) >= len(target)):
                        break
                else:
                    events.append(("no-progress", None))
                rec.case(("subprocess", json.dumps(cfg, sort_keys=True), inv_i, k))
                rec.count("subprocess_kill_scenarios")
                tag = next((l.get("killed_at") for l in sim.launches if l.get("killed_at")), None)
                w = {"cfg": cfg, "via": "real subprocess + SIGKILL", "interrupted_invocation": inv_i, "stub_failpoint_hit": k, "failpoint": tag, "events": [list(e) for e in events[:12]], "launches": [[list(l["step"]), l["completed"], l["selection"]] for l in sim.launches][:20]}
                judge(rec, cfg, ref, sim, events, "SIGKILL at %s (stub hit %d of invocation %d)" % (tag, k, inv_i + 1), w)
                shutil.rmtree(root)


def coverage_extra(tier, counters):
    return {"exhaustive": True, "exhaustive_subspace": "every single failpoint hit of every listed configuration was turned into a kill (%d scenarios); pairs are sampled" % counters.get("crash_scenarios", 0)}
