"""C06 - every candidate plate is scored once; the minimum-score allowed plate is chosen."""
import os

import numpy as np

from .. import kit, gen

PROP, NUM = "C06", 6
LEVEL = "exploration"
SHARDS = {"quick": 8, "thorough": 16}
TIMEOUT = {"quick": 900, "thorough": 5400}
RULE = (
    "screens with 1-10 plates (duplicate conditions inside and across plates), every observation pattern class, n_chunks "
    "1..P+3, batches of 0-3 unobserved plates; a recording Scorer logs the ids and row selections it is handed per chunk "
    "and returns prescribed scores (finite, -inf, heavy ties); chunk holders are saved to / loaded from h5 and combined in "
    "random orders (fresh load per order); recording / real k-per-sample policy; the calculate_scores and "
    "select_next_plate CLIs run in-process on the same files. A case is one (screen, n_chunks, batch) coverage check or "
    "one (order, policy) selection; distinct = (screen hash, n_chunks, batch, order, policy); non-trivial = at least 2 "
    "candidate plates"
)
ASSUMPTIONS = ["batches are subsets of the unobserved plates of the screen", "scores are finite or -inf (no NaN)"]
REQUIRED = {"batches_spelled_unsorted_or_with_repeats": {"quick": 300, "thorough": 4000}, "combined_holders_saved_and_reloaded": {"quick": 200, "thorough": 2500}, "batches_with_observed_plates": {"quick": 40, "thorough": 500}, "cli_selections_with_policy_and_empty_batch": {"quick": 15, "thorough": 100}, "dbal_end_to_end_runs_with_batch": {"quick": 5, "thorough": 60}, "dbal_scores_vs_reference": {"quick": 30, "thorough": 500}, "coverage_checks": {"quick": 800, "thorough": 10000}, "conditioning_checks": {"quick": 1500, "thorough": 20000}, "selections_checked": {"quick": 1800, "thorough": 25000}, "cli_runs": {"quick": 30, "thorough": 500}, "selections_none": {"quick": 20, "thorough": 400}}
N_SCREENS = {"quick": 960, "thorough": 12800}


def cond_key(screen, r):
    return (int(screen.sample_ids[r]),) + tuple(int(x) for x in screen.treatment_ids[r])


def dbal_end_to_end(rec, rng, screen, holder, dm, plate_rows, cand, batch, score_chunk, w):
    """The real GaussianDBALScorer behind the real score_chunk: each candidate's score must be the direct DBAL
    estimator (vf/oracles/dbal_ref.py) evaluated on the candidate's and the batch plates' experiments reduced to one
    experiment per distinct condition - whatever the scorer does internally with views that share the batch rows."""
    from batchie.scoring.gaussian_dbal import GaussianDBALScorer
    from ..oracles import dbal_ref

    if not cand:
        return
    T = holder.n_thetas
    d = np.asarray(dm.to_dense(), dtype=float)
    nch = int(rng.integers(1, 4))
    got = {}
    try:
        for c in range(nch):
            h = score_chunk(GaussianDBALScorer(max_chunk=int(rng.choice([1, 2, 50])), max_triples=5000), holder, screen, dm, rng=np.random.default_rng(int(rng.integers(0, 2**31))), n_chunks=nch, chunk_index=c, batch_plate_ids=list(batch) or None)
            for p_, s_ in zip(h.plate_ids.tolist(), h.scores.tolist()):
                got[int(p_)] = float(s_)
    except Exception as e:
        rec.violation("C06/score_chunk/raises", "score_chunk with GaussianDBALScorer raised %r\n%s" % (e, kit.tb()), w)
        return
    rec.count("dbal_end_to_end_runs")
    if batch:
        rec.count("dbal_end_to_end_runs_with_batch")
    batch_rows = set()
    for b in batch:
        batch_rows |= set(plate_rows[b])
    rec.check(sorted(got) == sorted(cand), "C06/coverage/not-each-candidate-once", lambda: "DBAL chunks scored %r, candidates are %r" % (sorted(got), sorted(cand)), w)
    for p_ in cand:
        if p_ not in got:
            continue
        rows = sorted(set(plate_rows[p_]) | batch_rows)
        seen, keep = set(), []
        for r in rows:
            k_ = cond_key(screen, r)
            if k_ not in seen or not batch:  # without a batch the plate is scored as it is, duplicates included
                seen.add(k_)
                keep.append(r)
        sel = np.zeros(screen.size, dtype=bool)
        sel[keep] = True
        view = screen.subset(sel)
        m = [np.asarray(th.predict_conditional_mean(view), dtype=float).tolist() for th in holder.thetas]
        v = [np.asarray(th.predict_conditional_variance(view), dtype=float).tolist() for th in holder.thetas]
        ref = dbal_ref.plate_score(m, v, d.tolist())
        a, b_ = float(got[p_]), float(ref)
        ok = a == b_ or (np.isfinite(a) and np.isfinite(b_) and abs(a - b_) <= 1e-9 * (1.0 + abs(b_)))
        rec.count("dbal_scores_vs_reference")
        rec.check(ok, "C06/conditioning/dbal-score-not-of-the-deduplicated-union", lambda: "plate %d scored %r by GaussianDBALScorer through score_chunk (batch %r); the direct estimator on its %d experiments (plate + batch, one per distinct condition when a batch exists) gives %r" % (p_, a, list(batch), len(keep), b_), w)


def run_shard(rec, tier, seed, shard, nshards):
    from batchie.core import Scorer, PlatePolicy, ThetaHolder
    from batchie.data import Screen, ExperimentSpace
    from batchie.scoring.main import score_chunk, select_next_plate, ChunkedScoresHolder
    from batchie.policies.k_per_sample import KPerSamplePlatePolicy
    from batchie.distance_calculation import ChunkedDistanceMatrix
    from batchie.cli import calculate_scores as cli_scores, select_next_plate as cli_select

    rng = kit.rng_for(seed, NUM, shard)

    class RecScorer(Scorer):
        def __init__(self, table):
            self.table = table
            self.calls = []

        def score(self, plates, distance_matrix, samples, rng, progress_bar):
            self.calls.append({int(k): tuple(int(i) for i in np.flatnonzero(np.asarray(v.selection_vector))) for k, v in plates.items()})
            # Scorer.score returns a MAPPING from plate id to score: the order in which a scorer lists the plates is its
            # own business (largest plate first, results collected from workers, ...)
            keys = list(plates)
            self.order = (getattr(self, "order", -1) + 1) % 4
            if self.order == 1:
                keys = keys[::-1]
            elif self.order == 2:
                keys = sorted(keys, key=lambda k: (-int(np.count_nonzero(plates[k].selection_vector)), -int(k)))
            elif self.order == 3:
                keys = [keys[i] for i in np.random.default_rng(len(self.calls)).permutation(len(keys))]
            if keys != list(plates):
                self.reordered = getattr(self, "reordered", 0) + 1
            return {k: self.table[int(k)] for k in keys}

    class RecPolicy(PlatePolicy):
        def __init__(self, allow):
            self.allow = allow
            self.calls = []

        def filter_eligible_plates(self, batch_plates, unobserved_plates, rng):
            self.calls.append((sorted(int(p.plate_id) for p in batch_plates), sorted(int(p.plate_id) for p in unobserved_plates)))
            return [p for p in unobserved_plates if int(p.plate_id) in self.allow]

    n_screens = N_SCREENS[tier] // nshards
    with kit.scratch_dir("vf-c06-") as tmp:
        for si in range(n_screens):
            per_sample = bool(rng.random() < 0.4)
            kw = gen.realistic_screen_kwargs(rng, n_samples=(1, 4), n_drugs=(2, 4), n_doses=(1, 2), n_rows=(2, 40), n_plates=(1, 10), p_dup=0.4, observed=str(rng.choice(["none", "some", "random", "all"], p=[0.35, 0.35, 0.25, 0.05])), plate_per_sample=per_sample)
            if si == 1:
                kw = gen.realistic_screen_kwargs(rng, n_samples=(2, 4), n_drugs=(3, 5), n_rows=(400, 700), n_plates=(110, 140), p_dup=0.3, observed="some")
                rec.count("many_plate_screens")
            screen = Screen(**kw)
            shash = kit.array_hash(screen.observations) + kit.array_hash(screen.plate_names)
            plate_rows = {int(p.plate_id): tuple(int(i) for i in np.flatnonzero(np.asarray(p.selection_vector))) for p in screen.plates}
            observed = {pid for pid, rows_ in plate_rows.items() if bool(screen.observation_mask[rows_[0]])}
            unobserved = sorted(set(plate_rows) - observed)
            P = len(plate_rows)
            n_chunks = int(rng.integers(1, min(P, 12) + 4))
            bsize = int(rng.integers(0, min(3, len(unobserved)) + 1))
            batch = sorted(int(x) for x in rng.choice(unobserved, size=bsize, replace=False)) if bsize else []
            if observed and rng.random() < 0.35:
                # plates selected earlier in this batch and revealed since (the retrospective simulation reveals each
                # selection at once and keeps passing it as an exclude): they still belong to the batch
                batch = sorted(set(batch) | set(int(x) for x in rng.choice(sorted(observed), size=int(rng.integers(1, min(2, len(observed)) + 1)), replace=False)))
                rec.count("batches_with_observed_plates")
            batch_arg = batch if (batch or rng.random() < 0.5) else None
            if batch_arg is not None and rng.random() < 0.4:
                # the same batch handed over as another kind of collection
                # (not as a numpy array: the parameter is documented as a list, and an array has no truth value)
                how_ = int(rng.integers(4))
                batch_arg = [tuple(batch), set(batch), frozenset(batch), dict.fromkeys(batch).keys()][how_]
                rec.count("batches_given_as_" + ["tuple", "set", "frozenset", "dict_keys"][how_])
            cand = sorted(set(unobserved) - set(batch))
            # prescribed scores: finite, -inf, heavy ties
            style = str(rng.choice(["distinct", "ties", "neginf", "allequal", "nearly-equal", "posinf"]))
            rec.count("score_style_" + style)
            near_base = float(rng.choice([1.0, -1.0, 123456.0, 1e-12, -3e-9, 0.0]))
            near_step = abs(near_base) * float(rng.choice([1e-7, 3e-6, 1e-10])) if near_base else 1e-11
            table = {}
            for pid in plate_rows:
                if style == "distinct":
                    table[pid] = float(rng.normal())
                elif style == "ties":
                    table[pid] = float(rng.integers(0, 3))
                elif style == "nearly-equal":
                    # strictly different scores that an approximate comparison would call equal
                    table[pid] = near_base + near_step * float(rng.integers(-3, 4))
                elif style == "neginf":
                    table[pid] = float(rng.choice([float("-inf"), 0.0, 1.0, float(rng.normal())]))
                elif style == "posinf":
                    table[pid] = float("inf") if rng.random() < 0.8 else float(rng.normal())
                else:
                    table[pid] = 0.5
            if rng.random() < 0.3:
                # a user's scorer derived from a shipped one (it reads its plates like any other scorer)
                from batchie.scoring.rand import RandomScorer as _RS
                from batchie.scoring.size import SizeScorer as _SS

                base_ = [_RS, _SS][int(rng.integers(2))]
                scorer = type("Rec" + base_.__name__, (base_,), {"__init__": RecScorer.__init__, "score": RecScorer.score})(table)
                rec.count("scorers_derived_from_a_shipped_scorer")
            else:
                scorer = RecScorer(table)
            w = {"plates": {str(k): [len(v), k in observed] for k, v in plate_rows.items()}, "n_chunks": n_chunks, "batch": batch, "scores": {str(k): table[k] for k in table}}
            files = []
            ok = True
            scored = []
            screen_fp = [kit.array_hash(x) for x in (screen.observations, screen.observation_mask, screen.plate_names, screen.plate_ids, screen.treatment_ids, screen.sample_ids)]
            # chunk jobs are separate processes in production: they need not share a seed or a generator
            rng_mode = str(rng.choice(["same-seed", "seed-per-chunk", "none", "shared-object"]))
            shared_gen = np.random.default_rng(int(rng.integers(0, 2**31)))
            w["chunk_rng"] = rng_mode
            rec.count("chunk_rng_" + rng_mode)
            for c in range(n_chunks):
                try:
                    crng = {"same-seed": lambda: np.random.default_rng(0), "seed-per-chunk": lambda: np.random.default_rng(1000 + c), "none": lambda: None, "shared-object": lambda: shared_gen}[rng_mode]()
                    h = score_chunk(scorer, thetas=None, screen=screen, distance_matrix=None, rng=crng, n_chunks=n_chunks, chunk_index=c, batch_plate_ids=batch_arg)
                    fn = os.path.join(tmp, "sc_%d.h5" % c)  # same paths in every round: older chunk files must be replaced
                    h.save_h5(fn)
                    files.append(fn)
                except Exception as e:
                    rec.violation("C06/score_chunk/raises", "score_chunk(chunk %d/%d, batch %r) raised %r\n%s" % (c, n_chunks, batch_arg, e, kit.tb()), w)
                    ok = False
                    break
            rec.case((shash, n_chunks, tuple(batch)), nontrivial=len(cand) >= 2)
            if not ok:
                continue
            for call in scorer.calls:
                scored.extend(call.keys())
            rec.count("coverage_checks")
            rec.check([kit.array_hash(x) for x in (screen.observations, screen.observation_mask, screen.plate_names, screen.plate_ids, screen.treatment_ids, screen.sample_ids)] == screen_fp, "C06/score_chunk/screen-mutated", "score_chunk changed the screen", w)
            rec.count("scorer_results_listed_in_another_order", getattr(scorer, "reordered", 0))
            rec.check(len(scorer.calls) == n_chunks, "C06/coverage/scorer-call-count", lambda: "scorer called %d times for %d chunks" % (len(scorer.calls), n_chunks), w)
            rec.check(sorted(scored) == cand, "C06/coverage/not-each-candidate-once", lambda: "scored ids %r across chunks, candidates are %r (unobserved %r, batch %r)" % (sorted(scored), cand, unobserved, batch), w)
            rec.check(not (set(scored) & observed), "C06/coverage/observed-plate-scored", lambda: "observed plates %r were handed to the scorer" % sorted(set(scored) & observed), w)
            rec.check(not (set(scored) & set(batch)), "C06/coverage/batch-plate-scored", lambda: "batch plates %r were handed to the scorer" % sorted(set(scored) & set(batch)), w)
            # conditioning
            batch_rows = set()
            for b in batch:
                batch_rows |= set(plate_rows[b])
            for call in scorer.calls:
                for pid, rows_ in call.items():
                    rec.count("conditioning_checks")
                    if pid not in plate_rows:
                        continue
                    if not batch:
                        rec.check(tuple(rows_) == plate_rows[pid], "C06/conditioning/plate-rows-differ", lambda: "plate %d scored on rows %r, its rows are %r" % (pid, rows_[:20], plate_rows[pid][:20]), w)
                    else:
                        union = set(plate_rows[pid]) | batch_rows
                        conds = {}
                        for r in union:
                            conds.setdefault(cond_key(screen, r), []).append(r)
                        got = [cond_key(screen, r) for r in rows_]
                        rec.check(set(rows_) <= union, "C06/conditioning/foreign-rows", lambda: "candidate %d conditioned on rows outside plate+batch" % pid, w)
                        rec.check(len(set(got)) == len(got), "C06/conditioning/duplicate-condition", lambda: "candidate %d: %d rows for %d distinct conditions" % (pid, len(got), len(set(got))), w)
                        rec.check(set(got) == set(conds), "C06/conditioning/not-the-deduplicated-union", lambda: "candidate %d conditioned on %d conditions, union of plate and batch has %d" % (pid, len(set(got)), len(conds)), w)
            # holders hold exactly what the scorer returned
            # ---------------- selection under random combination orders
            n_orders = int(rng.integers(1, 5 if tier == "quick" else 9))
            for oi in range(n_orders):
                order = [int(x) for x in rng.permutation(n_chunks)]
                try:
                    holders = [ChunkedScoresHolder.load_h5(files[c]) for c in order]
                    if rng.random() < 0.6:
                        # a per-chunk report before combining: look every holder up (must not change what comes later)
                        for h_ in holders:
                            ids_ = [int(x) for x in h_.plate_ids[: int(h_.current_index)].tolist()]
                            if ids_:
                                pid_ = ids_[int(rng.integers(len(ids_)))]
                                rec.check(float(h_.get_score(pid_)) == table[pid_], "C06/holder/get_score", "get_score of a loaded chunk holder returns another score than prescribed", w)
                                best_ = int(h_.plate_id_with_minimum_score(ids_))
                                rec.check(not [p for p in ids_ if table[p] < table[best_]], "C06/holder/chunk-minimum", "minimum of a chunk holder is not minimal", w)
                        rec.count("holders_queried_before_combine")
                    comb = ChunkedScoresHolder.concat(holders)
                    if len(holders) > 2 and rng.random() < 0.5:
                        # any order includes any bracketing: a random binary tree of combine() calls
                        parts = [ChunkedScoresHolder.load_h5(files[c]) for c in order]  # combine() works in place: fresh objects
                        while len(parts) > 1:
                            i_ = int(rng.integers(0, len(parts) - 1))
                            parts[i_ : i_ + 2] = [parts[i_].combine(parts[i_ + 1])]
                        rec.count("combinations_by_random_bracketing")
                        a_ = sorted((int(p), float(s)) for p, s in zip(parts[0].plate_ids.tolist(), parts[0].scores.tolist()))
                        b_ = sorted((int(p), float(s)) for p, s in zip(comb.plate_ids.tolist(), comb.scores.tolist()))
                        rec.check(a_ == b_, "C06/combine/contents-differ", lambda: "a pairwise (tree-shaped) reduction of the chunk holders holds %r, the left fold %r" % (a_[:8], b_[:8]), dict(w, order=order))
                except Exception as e:
                    rec.violation("C06/combine/raises", "load/concat in order %r raised %r" % (order, e), w)
                    continue
                if rng.random() < 0.4:
                    # an intermediate result of a reduction: the combined holder is itself saved and loaded again
                    try:
                        f_mid = os.path.join(tmp, "sc_combined.h5")
                        comb.save_h5(f_mid)
                        back = ChunkedScoresHolder.load_h5(f_mid)
                        rec.count("combined_holders_saved_and_reloaded")
                        a_ = sorted((int(p), float(s)) for p, s in zip(back.plate_ids.tolist(), back.scores.tolist()))
                        b_ = sorted((int(p), float(s)) for p, s in zip(comb.plate_ids.tolist(), comb.scores.tolist()))
                        rec.check(a_ == b_, "C06/combine/contents-differ", lambda: "a combined holder holds %d scores, after save + load %d" % (len(b_), len(a_)), dict(w, order=order))
                    except Exception as e:
                        rec.violation("C06/combine/raises", "saving / loading a combined holder raised %r" % (e,), w)
                got_scores = sorted((int(p), float(s)) for p, s in zip(comb.plate_ids[: len(cand)], comb.scores[: len(cand)]))
                rec.check(len(comb.scores) == len(cand) and got_scores == sorted((p, table[p]) for p in cand), "C06/combine/contents-differ", lambda: "combined holder holds %r, expected the candidates' prescribed scores" % (list(zip(comb.plate_ids.tolist(), comb.scores.tolist()))[:12],), dict(w, order=order))
                pol_kind = str(rng.choice(["none", "rec", "rec", "kper"])) if not per_sample else str(rng.choice(["none", "rec", "kper", "kper"]))
                policy = None
                allow = None
                if pol_kind == "rec":
                    allow = set(int(x) for x in plate_rows if rng.random() < 0.6)
                    policy = RecPolicy(allow)
                elif pol_kind == "kper":
                    policy = KPerSamplePlatePolicy(int(rng.integers(1, 4)))
                rec.case((shash, n_chunks, tuple(batch), tuple(order), pol_kind, oi), nontrivial=len(cand) >= 2)
                kper_allowed = None
                try:
                    if pol_kind == "kper":
                        recd = {}
                        orig = policy.filter_eligible_plates

                        def wrapped(batch_plates, unobserved_plates, rng, _o=orig, _r=recd):
                            res = _o(batch_plates=batch_plates, unobserved_plates=unobserved_plates, rng=rng)
                            _r["allowed"] = [int(p.plate_id) for p in res]
                            return res

                        policy.filter_eligible_plates = wrapped
                    # a batch is a set of plate ids: the caller may list them in any order and more than once
                    spelled = list(batch)
                    if len(spelled) >= 1 and rng.random() < 0.5:
                        spelled = [spelled[i] for i in rng.permutation(len(spelled))]
                        if rng.random() < 0.5:
                            spelled.insert(int(rng.integers(0, len(spelled) + 1)), spelled[int(rng.integers(len(spelled)))])
                        rec.count("batches_spelled_unsorted_or_with_repeats")
                    if len(spelled) and rng.random() < 0.3:
                        how_ = int(rng.integers(4))
                        spelled = [tuple(spelled), set(spelled), frozenset(spelled), dict.fromkeys(spelled).keys()][how_]
                        rec.count("selection_batches_given_as_" + ["tuple", "set", "frozenset", "dict_keys"][how_])
                    sel = select_next_plate(comb, screen, policy, batch_plate_ids=(spelled if batch_arg is not None else None), rng=np.random.default_rng(0))
                    if pol_kind == "kper":
                        kper_allowed = recd.get("allowed")
                        # what the policy allows for this batch, asked directly with each batch plate once
                        ref_pol = KPerSamplePlatePolicy(policy.k)
                        ref_allowed = sorted(int(p.plate_id) for p in ref_pol.filter_eligible_plates(batch_plates=[screen.get_plate(b) for b in sorted(set(batch))], unobserved_plates=[screen.get_plate(c) for c in cand], rng=np.random.default_rng(0)))
                        rec.check(kper_allowed is None or sorted(kper_allowed) == ref_allowed, "C06/select/policy-handed-wrong-sets", lambda: "batch spelled %r: inside select_next_plate the policy allowed %r, asked directly with batch %r it allows %r" % (spelled, sorted(kper_allowed or []), sorted(set(batch)), ref_allowed), w)
                        kper_allowed = ref_allowed
                except ValueError as e:
                    if pol_kind == "kper" and "exactly one sample" in str(e):
                        rec.did_not_return("select:kper-multi-sample", e)
                        continue
                    rec.violation("C06/select/raises", "select_next_plate raised %r (policy %s, order %r)" % (e, pol_kind, order), w)
                    continue
                except Exception as e:
                    rec.violation("C06/select/raises", "select_next_plate raised %r (policy %s, order %r)\n%s" % (e, pol_kind, order, kit.tb()), w)
                    continue
                if pol_kind == "none":
                    allowed = list(cand)
                elif pol_kind == "rec":
                    allowed = [p for p in cand if p in allow]
                    rec.check(policy.calls and policy.calls[-1] == (sorted(batch), cand), "C06/select/policy-handed-wrong-sets", lambda: "policy received %r, expected batch %r / candidates %r" % (policy.calls[-1:], sorted(batch), cand), w)
                else:
                    allowed = list(kper_allowed or [])
                rec.count("selections_checked")
                rec.count("selections_policy_" + pol_kind)
                if pol_kind != "rec":
                    try:
                        sel2 = select_next_plate(comb, screen, policy, batch_plate_ids=(list(batch) if batch_arg is not None else None), rng=np.random.default_rng(0))
                        rec.check((sel is None) == (sel2 is None) and (sel is None or int(sel.plate_id) == int(sel2.plate_id)), "C06/select/not-repeatable", "a second identical select_next_plate call returned another plate", w)
                    except Exception as e:
                        rec.violation("C06/select/not-repeatable", "a second identical select_next_plate call raised %r" % (e,), w)
                rec.check([kit.array_hash(x) for x in (screen.observations, screen.observation_mask, screen.plate_names, screen.plate_ids, screen.treatment_ids, screen.sample_ids)] == screen_fp, "C06/select/screen-mutated", "select_next_plate changed the screen", w)
                ww = dict(w, order=order, policy=pol_kind, allowed=allowed)
                if not allowed:
                    rec.count("selections_none")
                    rec.check(sel is None, "C06/select/returned-although-nothing-allowed", lambda: "plate %r returned although no plate is allowed" % (None if sel is None else int(sel.plate_id)), ww)
                    continue
                if not rec.check(sel is not None, "C06/select/none-although-allowed", lambda: "nothing returned although plates %r are allowed" % allowed, ww):
                    continue
                pid = int(sel.plate_id)
                rec.check(pid in unobserved, "C06/select/observed-plate-returned", "plate %d is observed" % pid, ww)
                rec.check(pid not in batch, "C06/select/batch-plate-returned", "plate %d is already in the batch" % pid, ww)
                rec.check(pid in allowed, "C06/select/not-allowed-plate-returned", lambda: "plate %d returned, allowed are %r" % (pid, allowed), ww)
                better = [p for p in allowed if table[p] < table.get(pid, float("inf"))]
                rec.check(not better, "C06/select/not-minimal", lambda: "plate %d (score %r) returned although allowed plates %r score strictly lower" % (pid, table.get(pid), better), ww)
                rec.check(tuple(int(i) for i in np.flatnonzero(np.asarray(sel.selection_vector))) == plate_rows.get(pid), "C06/select/returned-plate-rows", "returned Plate object does not hold that plate's rows", ww)
            if si == 0 and shard == 0:
                rec.sample({"plates": w["plates"], "n_chunks": n_chunks, "batch": batch, "scored_per_chunk": [sorted(c) for c in scorer.calls], "score_style": style})

        # ---------------------------------------------------- CLI path on real files
        n_cli = {"quick": 10, "thorough": 60}[tier]
        for ci in range(n_cli):
            kw = gen.realistic_screen_kwargs(rng, n_samples=(1, 3), n_rows=(6, 30), n_plates=(2, 7), p_dup=0.4, observed=str(rng.choice(["some", "none", "all"])), plate_per_sample=True)
            screen = Screen(**kw)
            sp = ExperimentSpace.from_screen(screen)
            holder = ThetaHolder(n_thetas=3)
            for _ in range(3):
                holder.add_theta(gen.random_sparse_combo_theta(rng, sp.n_unique_samples, max(1, sp.n_unique_treatments), scale=1.0))
            dm = ChunkedDistanceMatrix(size=3)
            for i in range(3):
                for j in range(i):
                    dm.add_value(i, j, float(rng.random()))
            f_s, f_t, f_d = os.path.join(tmp, "s.h5"), os.path.join(tmp, "t.h5"), os.path.join(tmp, "d.h5")
            screen.save_h5(f_s)
            holder.save_h5(f_t)
            dm.save(f_d)
            plate_rows = {int(p.plate_id): tuple(int(i) for i in np.flatnonzero(np.asarray(p.selection_vector))) for p in screen.plates}
            observed = {pid for pid, rows_ in plate_rows.items() if bool(screen.observation_mask[rows_[0]])}
            unobserved = sorted(set(plate_rows) - observed)
            bsize = int(rng.integers(0, min(2, len(unobserved)) + 1)) if rng.random() < 0.6 else 0
            batch = sorted(int(x) for x in rng.choice(unobserved, size=bsize, replace=False)) if bsize else []
            if observed and rng.random() < 0.35:
                batch = sorted(set(batch) | {int(rng.choice(sorted(observed)))})
                rec.count("batches_with_observed_plates")
            cand = sorted(set(unobserved) - set(batch))
            n_chunks = int(rng.integers(1, len(plate_rows) + 3))
            outs = []
            w = {"plates": {str(k): [len(v), k in observed] for k, v in plate_rows.items()}, "n_chunks": n_chunks, "batch": batch, "via": "cli"}
            try:
                for c in range(n_chunks):
                    # every other run keeps one directory per chunk with the same file name in each
                    if ci % 2:
                        os.makedirs(os.path.join(tmp, "chunk_%d" % c), exist_ok=True)
                        o = os.path.join(tmp, "chunk_%d" % c, "scores.h5")
                    else:
                        o = os.path.join(tmp, "o%d.h5" % c)
                    argv = ["--data", f_s, "--thetas", f_t, "--distance-matrix", f_d, "--n-chunks", n_chunks, "--chunk-index", c, "--scorer", "SizeScorer", "--output", o, "--seed", 3]
                    if batch:
                        argv += ["--batch-plate-ids"] + batch
                    kit.run_cli(cli_scores.main, argv)
                    outs.append(o)
                order = [int(x) for x in rng.permutation(n_chunks)]
                sel_out = os.path.join(tmp, "selected_plate")
                k = int(rng.integers(1, 4))
                use_pol = bool(rng.random() < 0.75)
                if use_pol and not batch:
                    rec.count("cli_selections_with_policy_and_empty_batch")
                argv = ["--data", f_s, "--scores"] + [outs[c] for c in order] + ["--output", sel_out, "--seed", 1]
                if use_pol:
                    argv += ["--policy", "KPerSamplePlatePolicy", "--policy-param", "k=%d" % k]
                if batch:
                    argv += ["--batch-plate-id"] + batch
                kit.run_cli(cli_select.main, argv)
                with open(sel_out) as f:
                    txt = f.read().strip()
            except Exception as e:
                rec.violation("C06/cli/raises", "CLI path raised %r\n%s" % (e, kit.tb()), w)
                continue
            rec.case(("cli", kit.array_hash(screen.observations), n_chunks, tuple(batch), use_pol), nontrivial=len(cand) >= 2)
            rec.count("cli_runs")
            dbal_end_to_end(rec, rng, screen, holder, dm, plate_rows, cand, batch, score_chunk, w)
            comb = ChunkedScoresHolder.concat([ChunkedScoresHolder.load_h5(o) for o in outs])
            ids = sorted(int(x) for x in comb.plate_ids.tolist())
            rec.check(ids == cand, "C06/coverage/not-each-candidate-once", lambda: "CLI chunks scored %r, candidates are %r" % (ids, cand), w)
            # SizeScorer = number of distinct conditions of plate + batch
            batch_rows = set()
            for b in batch:
                batch_rows |= set(plate_rows[b])
            want = {p: float(len({cond_key(screen, r) for r in (set(plate_rows[p]) | batch_rows)})) if batch else float(len(plate_rows[p])) for p in cand}
            got = {int(p): float(s) for p, s in zip(comb.plate_ids.tolist(), comb.scores.tolist())}
            rec.check(got == want, "C06/conditioning/not-the-deduplicated-union", lambda: "CLI size scores %r, expected %r" % (got, want), w)
            # selection
            if use_pol:
                pol = KPerSamplePlatePolicy(k)
                allowed = [int(p.plate_id) for p in pol.filter_eligible_plates(batch_plates=[screen.get_plate(b) for b in batch], unobserved_plates=[screen.get_plate(p) for p in cand], rng=None)]
            else:
                allowed = list(cand)
            if not allowed:
                rec.count("selections_none")
                rec.check(txt == "-1", "C06/cli/not-minus-one-when-nothing-eligible", lambda: "selected_plate file holds %r although nothing is eligible" % txt, w)
            else:
                ok = txt.lstrip("-").isdigit() and int(txt) in allowed and not [p for p in allowed if want[p] < want[int(txt)]]
                rec.check(ok, "C06/cli/selection-not-minimal-allowed", lambda: "selected_plate file holds %r, allowed %r with scores %r" % (txt, allowed, want), w)
