"""C03 - identifiers stay stable through the whole simulation lifecycle."""
import os

import numpy as np

from .. import kit, gen

PROP, NUM = "C03", 3
LEVEL = "exploration"
SHARDS = {"quick": 8, "thorough": 16}
TIMEOUT = {"quick": 900, "thorough": 5400}
RULE = (
    "lineages: random full screen in which 10-30% of the samples / (treatment,dose) pairs occur once -> mask -> optional "
    "plate permutation -> real hold-out split (fraction 0.1-0.6) -> random history of 3-12 steps over {reveal(random "
    "subset/order), mask, unmask, save+load, reveal_plate CLI} on the training and on the test screen; every stage's ids "
    "are compared with the lineage root's name->id maps, embedding sizes must not shrink, and a posterior sample sized by "
    "the root space must predict bit-identical means for the same experiments (matched by unique observation tag). A case "
    "is one stage of one lineage; distinct = (lineage hash, history prefix); non-trivial = the root mapping lists a "
    "sample or condition that is absent from this stage's rows"
)
ASSUMPTIONS = ["the lineage root is the screen handed to the hold-out split (what prepare_retrospective_simulation saves)"]
REQUIRED = {"lineages_with_a_supplied_numbering_that_is_not_alphabetical": {"quick": 30, "thorough": 400}, "copies_of_stages_and_views_checked": {"quick": 300, "thorough": 5000}, "cli_prepared_lineages": {"quick": 12, "thorough": 120}, "stages_checked": {"quick": 6000, "thorough": 60000}, "stages_with_holdout_only_conditions": {"quick": 3000, "thorough": 30000}, "prediction_comparisons": {"quick": 50000, "thorough": 500000}, "cli_stages": {"quick": 400, "thorough": 4000}, "zero_row_stages": {"quick": 15, "thorough": 200}, "train_cli_runs": {"quick": 30, "thorough": 350}}
N_LIN = {"quick": 640, "thorough": 6400}


def root_maps(root):
    smap = {str(n): int(i) for n, i in zip(root.sample_mapping[0], root.sample_mapping[1])}
    tmap = {}
    for n, d, i in zip(root.treatment_mapping[0], root.treatment_mapping[1], root.treatment_mapping[2]):
        tmap[(str(n), float(d))] = int(i)
    return smap, tmap


_N = [0]


def check_stage(rec, stage, root, smap, tmap, what, w):
    bad = None
    sids = np.asarray(stage.sample_ids)
    tids = np.asarray(stage.treatment_ids)
    for i in range(stage.size):
        if smap.get(str(stage.sample_names[i])) != int(sids[i]):
            bad = ("sample", i, str(stage.sample_names[i]), int(sids[i]), smap.get(str(stage.sample_names[i])))
            break
        for a in range(tids.shape[1]):
            key = (str(stage.treatment_names[i, a]), float(stage.treatment_doses[i, a]))
            if tmap.get(key) != int(tids[i, a]):
                bad = ("treatment", i, key, int(tids[i, a]), tmap.get(key))
                break
        if bad:
            break
    rec.count("stages_checked")
    rec.check(bad is None, "C03/ids/renumbered-%s" % (what.split(":")[0]), lambda: "%s: %s of row %d %r has id %r, the lineage root assigns %r" % (what, bad[0], bad[1], bad[2], bad[3], bad[4]), w)
    # the mappings carried by the stage (what a model's embeddings are sized and indexed by) still know every
    # sample and condition of the lineage under the same id - also those absent from this stage's rows
    s2, t2 = root_maps(stage)
    lost_s = sorted(k for k, v in smap.items() if s2.get(k) != v)
    lost_t = sorted(k for k, v in tmap.items() if t2.get(k) != v)
    rec.check(not lost_s and not lost_t, "C03/mapping/root-entry-lost-%s" % (what.split(":")[0]), lambda: "%s: the stage's mappings no longer assign the lineage's id to samples %r / conditions %r" % (what, lost_s[:4], lost_t[:4]), w)
    ok = bad is None and not lost_s and not lost_t
    _N[0] += 1
    if ok and stage.size and _N[0] % 5 == 0 and hasattr(stage, "plates"):
        # a copy of the stage, or of one of its plates / row selections, made by copy.copy / copy.deepcopy / a pickle
        # round trip (what a worker pool does with its arguments) is the same stage: same ids on the same rows
        import copy, pickle

        how = [copy.copy, copy.deepcopy, lambda o: pickle.loads(pickle.dumps(o))][(_N[0] // 5) % 3]
        pls = stage.plates
        sel = np.zeros(stage.size, dtype=bool)
        sel[:: 2] = True
        for label, obj in (("the stage", stage), ("a plate of the stage", pls[(_N[0] // 5) % len(pls)]), ("every second row of the stage", stage.subset(sel))):
            try:
                dup = how(obj)
                same = np.array_equal(np.asarray(dup.sample_ids), np.asarray(obj.sample_ids)) and np.array_equal(np.asarray(dup.treatment_ids), np.asarray(obj.treatment_ids))
                s3, t3 = root_maps(dup)
                same = same and not [k for k, v in smap.items() if s3.get(k) != v] and not [k for k, v in tmap.items() if t3.get(k) != v]
            except Exception as e:
                rec.violation("C03/op/raises", "%s: copying %s raised %r" % (what, label, e), w)
                continue
            rec.count("copies_of_stages_and_views_checked")
            rec.check(bool(same), "C03/ids/renumbered-copy", lambda: "%s: a copy of %s (copy / deepcopy / pickle) carries other ids or mappings than the original" % (what, label), w)
    return ok


def prepared_by_cli(rec, tier, rng, tmp):
    """The lineage as the pipeline starts it: prepare_retrospective_simulation on a file, with a plate smoother (which
    drops experiments and rebuilds screens on the way) and a hold-out; the training and the test file must number
    every name they share alike, and a model sized by the training file must be able to index every test row."""
    from batchie.data import Screen, ExperimentSpace
    from batchie.cli import prepare_retrospective_simulation as cli

    smoothers = [
        ("NPlatePerCellLineSmoother", lambda: ["min_n_cell_line_plates=%d" % int(rng.integers(1, 4))]),
        ("FixedSizeSmoother", lambda: ["plate_size=%d" % int(rng.integers(2, 6))]),
        ("MergeMinPlateSmoother", lambda: ["min_size=%d" % int(rng.integers(2, 8))]),
        ("OptimalSizeSmoother", lambda: []),
        (None, lambda: []),
    ]
    for ci in range({"quick": 3, "thorough": 14}[tier]):
        kw = gen.realistic_screen_kwargs(rng, n_samples=(3, 6), n_rows=(20, 60), n_plates=(4, 10), observed="all", plate_per_sample=True, singletons=float(rng.uniform(0.1, 0.3)), unicode_names=bool(rng.random() < 0.2))
        f_in, f_tr, f_te = (os.path.join(tmp, x) for x in ("prep_in.h5", "prep_train.h5", "prep_test.h5"))
        try:
            Screen(**kw).save_h5(f_in)
        except Exception as e:
            rec.did_not_return("prepare-construct", e)
            continue
        sm, smp = smoothers[int(rng.integers(len(smoothers)))]
        frac = float(rng.choice([0.1, 0.25, 0.5]))
        argv = ["--data", f_in, "--training-output", f_tr, "--test-output", f_te, "--holdout-fraction", frac, "--seed", int(rng.integers(0, 1000))]
        if sm:
            argv += ["--plate-smoother", sm]
            for p_ in smp():
                argv += ["--plate-smoother-param", p_]
        w = {"via": "prepare_retrospective_simulation", "smoother": sm, "fraction": frac}
        try:
            kit.run_cli(cli.main, argv)
            train, test = Screen.load_h5(f_tr), Screen.load_h5(f_te)
        except Exception as e:
            rec.did_not_return("prepare-cli", e)
            continue
        rec.count("cli_prepared_lineages")
        rec.case(("prepare-cli", kit.array_hash(kw["observations"]), sm, frac), nontrivial=test.size > 0)
        s_tr = dict(zip([str(x) for x in train.sample_mapping[0]], [int(x) for x in train.sample_mapping[1]]))
        s_te = dict(zip([str(x) for x in test.sample_mapping[0]], [int(x) for x in test.sample_mapping[1]]))
        t_tr = dict(zip(zip([str(x) for x in train.treatment_mapping[0]], [float(x) for x in train.treatment_mapping[1]]), [int(x) for x in train.treatment_mapping[2]]))
        t_te = dict(zip(zip([str(x) for x in test.treatment_mapping[0]], [float(x) for x in test.treatment_mapping[1]]), [int(x) for x in test.treatment_mapping[2]]))
        bad_s = [(n_, s_tr[n_], s_te[n_]) for n_ in s_tr if n_ in s_te and s_tr[n_] != s_te[n_]]
        bad_t = [(n_, t_tr[n_], t_te[n_]) for n_ in t_tr if n_ in t_te and t_tr[n_] != t_te[n_]]
        rec.check(not bad_s and not bad_t, "C03/ids/renumbered-prepare-cli", lambda: "training and test file of one preparation number the same names differently: samples %r, conditions %r (name, id in training, id in test)" % (bad_s[:3], bad_t[:3]), w)
        # rows decode through their own file's tables
        for which, scr, sm_, tm_ in (("training", train, s_tr, t_tr), ("test", test, s_te, t_te)):
            okr = all(sm_.get(str(scr.sample_names[i])) == int(scr.sample_ids[i]) for i in range(scr.size)) and all(tm_.get((str(scr.treatment_names[i, a]), float(scr.treatment_doses[i, a]))) == int(scr.treatment_ids[i, a]) for i in range(scr.size) for a in range(scr.treatment_arity))
            rec.check(okr, "C03/ids/renumbered-prepare-cli", "%s file: a row's ids are not the ids its own tables give its names" % which, w)
        if test.size and train.size:
            sp = ExperimentSpace.from_screen(train)
            rec.check(int(np.max(test.sample_ids)) < sp.n_unique_samples and int(np.max(test.treatment_ids)) < sp.n_unique_treatments, "C03/space/shrinks", lambda: "a model sized by the training file (%d samples, %d treatments) cannot index the test file (max ids %d, %d)" % (sp.n_unique_samples, sp.n_unique_treatments, int(np.max(test.sample_ids)), int(np.max(test.treatment_ids))), w)


def train_cli_ids(rec, train, smap, tmap, a_h5, b_h5, lhash):
    """train_model run in-process on the saved training stage: every experiment must reach the model under the
    lineage's ids (a model indexes its embeddings by them)"""
    from batchie.core import BayesianModel
    from batchie.cli import train_model

    train.save_h5(a_h5)
    seen = []
    with kit.Patches() as P:
        def mk(orig):
            def add_observations(self, data):
                names = [str(x) for x in np.asarray(data.sample_names)]
                tn, td = np.asarray(data.treatment_names), np.asarray(data.treatment_doses)
                for i in range(len(names)):
                    seen.append((names[i], int(np.asarray(data.sample_ids)[i]), [((str(tn[i, a]), float(td[i, a])), int(np.asarray(data.treatment_ids)[i, a])) for a in range(tn.shape[1])]))
                return orig(self, data)

            return add_observations

        P.wrap(BayesianModel, "add_observations", mk)
        try:
            kit.run_cli(train_model.main, ["--data", a_h5, "--model", "SparseDrugCombo", "--model-param", "n_embedding_dimensions=1", "--output", b_h5, "--n-samples", 1, "--n-burnin", 0, "--thin", 1, "--seed", 1])
        except Exception as e:
            rec.did_not_return("train_model-cli", e)
            if os.environ.get("VF_DEBUG_TB"):
                rec.notes.append("train_model-cli raised: " + kit.tb())
            return
    rec.case((lhash, "train_model-cli"), nontrivial=True)
    rec.count("train_cli_runs")
    bad = None
    for name, sid, ts in seen:
        if smap.get(name) != sid:
            bad = ("sample", name, sid, smap.get(name))
            break
        for key, tid in ts:
            if tmap.get(key) != tid:
                bad = ("treatment", key, tid, tmap.get(key))
                break
        if bad:
            break
    rec.check(bool(seen) and bad is None, "C03/ids/renumbered-train_model-cli", lambda: "train_model handed the model %s %r under id %r, the lineage assigns %r" % (bad if bad else ("nothing", None, None, None)), {"lineage": lhash})


def run_shard(rec, tier, seed, shard, nshards):
    from batchie.data import Screen, ExperimentSpace
    from batchie import retrospective as R
    from batchie.cli import reveal_plate as cli_reveal
    from batchie.models.sparse_combo import SparseDrugCombo
    from batchie import sampling
    from batchie.core import ThetaHolder

    rng = kit.rng_for(seed, NUM, shard)
    n_lin = N_LIN[tier] // nshards
    with kit.scratch_dir("vf-c03-") as tmp:
        prepared_by_cli(rec, tier, rng, tmp)
        a_h5, b_h5 = os.path.join(tmp, "a.h5"), os.path.join(tmp, "b.h5")
        for li in range(n_lin):
            control = str(rng.choice(["", "DMSO"]))
            kw = gen.realistic_screen_kwargs(rng, n_samples=(2, 5), n_rows=(8, 40), n_plates=(2, 7), observed="all", singletons=float(rng.uniform(0.1, 0.3)), control=control, unicode_names=bool(rng.random() < 0.3), tiny_doses=bool(rng.random() < 0.2))
            u = rng.random()
            if u < 0.06:
                # degenerate but legal: a vehicle-only run (every well holds the control) ...
                if rng.random() < 0.5:
                    kw["treatment_doses"] = np.zeros_like(kw["treatment_doses"])
                else:
                    kw["treatment_names"] = np.full(kw["treatment_names"].shape, control).astype(str)
                rec.count("lineages_all_control")
            elif u < 0.12:
                # ... or single agents only (the control in every second position)
                names = kw["treatment_names"].astype(object)
                names[:, 1] = control
                kw["treatment_names"] = names.astype(str)
                kw["treatment_doses"] = kw["treatment_doses"].copy()
                kw["treatment_doses"][:, 1] = 0.0
                rec.count("lineages_single_agents_only")
            elif u < 0.16:
                # ... or one sample only
                kw["sample_names"] = np.full(kw["sample_names"].shape, str(kw["sample_names"][0]))
                rec.count("lineages_one_sample")
            try:
                full = Screen(**kw)
            except Exception as e:
                rec.did_not_return("construct", e)
                continue
            callers_tables = None
            if rng.random() < 0.3:
                # the screen is built with mapping tables the CALLER owns (e.g. read from an experiment-space file)
                callers_tables = (tuple(np.array(a, copy=True) for a in full.treatment_mapping), tuple(np.array(a, copy=True) for a in full.sample_mapping))
                if rng.random() < 0.6:
                    # a numbering that is dense but does not follow the alphabet (a lab's own cell-line numbers, an
                    # experiment space written by an earlier campaign), listed in any order
                    (tn_, td_, ti_), (sn_, si_) = callers_tables
                    si_[:] = rng.permutation(len(si_))
                    nc_ = ti_ >= 0
                    ti_[nc_] = rng.permutation(int(nc_.sum()))
                    o_s, o_t = rng.permutation(len(si_)), rng.permutation(len(ti_))
                    callers_tables = ((tn_[o_t], td_[o_t], ti_[o_t]), (sn_[o_s], si_[o_s]))
                    rec.count("lineages_with_a_supplied_numbering_that_is_not_alphabetical")
                try:
                    full = Screen(treatment_mapping=callers_tables[0], sample_mapping=callers_tables[1], **kw)
                except Exception as e:
                    rec.did_not_return("construct-with-own-tables", e)
                    continue
            try:
                root = R.mask_screen(full)
                if rng.random() < 0.4:
                    root = R.PlatePermutationPlateGenerator().generate_plates(root, rng)
                if rng.random() < 0.5:
                    # like prepare_retrospective_simulation: reveal one plate before the split
                    root = R.reveal_plates(root, [int(rng.choice(root.unique_plate_ids))])
                frac = float(rng.uniform(0.1, 0.6))
                if rng.random() < 0.12:
                    frac = float(rng.choice([0.0, 1.0]))  # empty test screen / training screen without unobserved rows
                    rec.count("lineages_extreme_fraction")
                train, test = R.create_plate_balanced_holdout_set_among_masked_plates(root, frac, rng)
            except Exception as e:
                # the screen itself was accepted: its preparation (mask, permutation, first reveal, hold-out split) has
                # nothing to refuse
                rec.did_not_return("prepare", e)
                rec.count("oracle_evals")
                rec.violation("C03/op/raises", "preparing the simulation of an accepted screen (mask / permute / reveal / hold-out split) raised %r" % (e,), {"names": kw["treatment_names"].tolist()[:6], "doses": kw["treatment_doses"].tolist()[:6], "samples": kw["sample_names"].tolist()[:6]})
                continue
            smap, tmap = root_maps(root)
            if callers_tables is not None:
                # ... and the caller goes on using its tables for something else once the simulation is prepared
                try:
                    callers_tables[0][1][:] = callers_tables[0][1] * 1000.0
                    callers_tables[0][2][:] = callers_tables[0][2][::-1].copy()
                    callers_tables[1][1][:] = callers_tables[1][1][::-1].copy()
                    callers_tables[0][0][:] = "zz"
                    callers_tables[1][0][:] = "zz"
                    rec.count("lineages_whose_caller_rewrote_its_mapping_tables")
                except ValueError:
                    rec.count("caller_tables_read_only")
            space0 = ExperimentSpace.from_screen(root)
            ns0, nt0 = space0.n_unique_samples, space0.n_unique_treatments
            lhash = kit.array_hash(root.observations)
            train_samples = set(str(x) for x in train.sample_names)
            train_conds = set((str(n), float(d)) for n, d in zip(train.treatment_names.ravel(), train.treatment_doses.ravel()))
            holdout_only = (set(smap) - train_samples) or (set(k for k, v in tmap.items() if v != -1) - train_conds)
            # a posterior sample sized by the root space
            theta = gen.random_sparse_combo_theta(rng, ns0, max(nt0, 1), scale=1.0)
            if tier == "thorough" and li % 8 == 0 and train.subset_observed() is not None:
                try:
                    m = SparseDrugCombo(experiment_space=ExperimentSpace.from_screen(train), n_embedding_dimensions=2)
                    m.add_observations(train.subset_observed())
                    theta = sampling.sample(m, ThetaHolder(n_thetas=1), seed=li, n_chains=1, chain_index=0, n_burnin=2, thin=1).thetas[0]
                    rec.count("trained_thetas")
                except Exception as e:
                    rec.did_not_return("train", e)
            ref_pred = {}
            try:
                for scr in (train, test):
                    if scr.size:
                        pm = theta.predict_conditional_mean(scr)
                        for tag, v in zip(scr.observations, pm):
                            ref_pred[float(tag)] = float(v)
            except Exception as e:
                rec.violation("C03/predict/raises-on-stage-0", "prediction on the freshly split screens raised %r" % (e,), {"lineage": lhash})
                continue

            if li % 6 == 0 and train.size and bool(np.any(train.observation_mask)):
                train_cli_ids(rec, train, smap, tmap, a_h5, b_h5, lhash)
            for which, stage in (("train", train), ("test", test)):
                if stage.size == 0:
                    # a zero-row stage has no row ids to compare, but it still carries the lineage's mappings (a model
                    # or an experiment space derived from it must keep its size) through save / load / mask / unmask
                    rec.case((lhash, which, "empty"), nontrivial=True)
                    rec.count("zero_row_stages")
                    w0 = {"lineage": lhash, "which": which, "rows": 0}
                    cur = stage
                    check_stage(rec, cur, root, smap, tmap, "holdout-split:" + which, w0)
                    for op in ("saveload", "mask", "unmask", "saveload"):
                        try:
                            if op == "saveload":
                                cur.save_h5(a_h5)
                                cur = Screen.load_h5(a_h5)
                            elif op == "mask":
                                cur = R.mask_screen(cur)
                            else:
                                cur = R.unmask_screen(cur)
                        except Exception as e:
                            rec.violation("C03/op/raises", "%s on a zero-row %s screen raised %r" % (op, which, e), w0)
                            break
                        if not check_stage(rec, cur, root, smap, tmap, op + ":" + which, w0):
                            break
                        sp = ExperimentSpace.from_screen(cur)
                        rec.check(sp.n_unique_samples >= ns0 and sp.n_unique_treatments >= nt0, "C03/space/shrinks", lambda: "embedding sizes of the zero-row %s screen are (%d, %d) after %s, the lineage implies (%d, %d)" % (which, sp.n_unique_samples, sp.n_unique_treatments, op, ns0, nt0), w0)
                    continue
                hist = []
                kept = []
                prev_sizes = (ns0, nt0)
                n_steps = int(rng.integers(3, 13))
                w0 = {"lineage": lhash, "which": which, "root_samples": sorted(smap), "stage_samples": sorted(set(str(x) for x in stage.sample_names))}
                rec.case((lhash, which, ()), nontrivial=bool(holdout_only))
                check_stage(rec, stage, root, smap, tmap, "holdout-split:" + which, w0)
                for si in range(n_steps):
                    op = str(rng.choice(["reveal", "reveal", "mask", "unmask", "saveload", "reveal_cli"], p=[0.35, 0.15, 0.1, 0.1, 0.2, 0.1]))
                    ids = None
                    try:
                        if op in ("reveal", "reveal_cli"):
                            upl = [int(x) for x in stage.unique_plate_ids]
                            ids = [int(x) for x in rng.choice(upl, size=int(rng.integers(1, min(3, len(upl)) + 1)), replace=False)]
                            if op == "reveal":
                                new = R.reveal_plates(stage, ids)
                            else:
                                stage.save_h5(a_h5)
                                kit.run_cli(cli_reveal.main, ["--screen", a_h5, "--output", b_h5, "--plate-id"] + [str(i) for i in ids])
                                new = Screen.load_h5(b_h5)
                                rec.count("cli_stages")
                        elif op == "mask":
                            new = R.mask_screen(stage)
                        elif op == "unmask":
                            new = R.unmask_screen(stage)
                        else:
                            stage.save_h5(a_h5)
                            new = Screen.load_h5(a_h5)
                    except Exception as e:
                        rec.violation("C03/op/raises", "%s raised %r" % (op, e), dict(w0, history=hist))
                        break
                    hist.append([op, ids] if ids else [op])
                    kept.append((stage, kit.array_hash(stage.sample_ids), kit.array_hash(stage.treatment_ids), kit.raw_bytes(np.asarray(stage.observation_mask))))
                    for k_scr, k_s, k_t, k_m in kept:
                        rec.count("earlier_stage_rechecks")
                        rec.check(kit.array_hash(k_scr.sample_ids) == k_s and kit.array_hash(k_scr.treatment_ids) == k_t and kit.raw_bytes(np.asarray(k_scr.observation_mask)) == k_m, "C03/alias/earlier-stage-changed", "%s changed an earlier stage of the lineage (ids or mask of a screen it was not applied to)" % op, dict(w0, history=hist[-8:]))
                    stage = new
                    w = dict(w0, history=hist[-8:])
                    rec.case((lhash, which, tuple(str(h) for h in hist)), nontrivial=bool(holdout_only))
                    if holdout_only:
                        rec.count("stages_with_holdout_only_conditions")
                    rec.count("op_" + op)
                    if not check_stage(rec, stage, root, smap, tmap, op + ":" + which, w):
                        break  # later stages inherit the renumbering; name only the operation that introduced it
                    # (b) embedding sizes never shrink
                    sp = ExperimentSpace.from_screen(stage)
                    sizes = (sp.n_unique_samples, sp.n_unique_treatments)
                    rec.check(sizes[0] >= prev_sizes[0] and sizes[1] >= prev_sizes[1], "C03/space/shrinks", lambda: "embedding sizes (samples, treatments) went %r -> %r after %s" % (prev_sizes, sizes, op), w)
                    prev_sizes = (max(sizes[0], prev_sizes[0]), max(sizes[1], prev_sizes[1]))
                    # (c) predictions identical for the same experiments
                    try:
                        pm = theta.predict_conditional_mean(stage)
                        diff = [(float(t), float(v), ref_pred[float(t)]) for t, v in zip(stage.observations, pm) if ref_pred.get(float(t)) is not None and not (float(v) == ref_pred[float(t)])]
                        rec.count("prediction_comparisons", stage.size)
                        rec.check(not diff, "C03/predict/differs-between-stages", lambda: "%d of %d experiments are predicted differently after %s (first: tag %r now %r before %r)" % (len(diff), stage.size, op, diff[0][0], diff[0][1], diff[0][2]), w)
                    except IndexError as e:
                        rec.count("oracle_evals")
                        rec.violation("C03/predict/index-error", "prediction with a sample sized by the root space raised %r after %s" % (e, op), w)
                if li == 0 and shard == 0 and which == "train":
                    rec.sample({"kind": "lineage", "root_rows": int(root.size), "train_rows": int(train.size), "test_rows": int(test.size), "holdout_fraction": round(frac, 3), "samples_only_in_holdout": sorted(set(smap) - train_samples), "history": hist[:8]})
