"""Import batchie (and the orchestration script) from the tree under test.

The tree is $VERIF_REPO (default /repo).  Its ``src`` directory is put first on
``sys.path`` so that a scratch copy wins over the editable install of /repo, and the
origin of every imported batchie module is verified afterwards.
"""
import importlib
import importlib.util
import logging
import os
import sys
import warnings

REPO = os.path.abspath(os.environ.get("VERIF_REPO", "/repo"))
SRC = os.path.join(REPO, "src")
GUARD = "BATCHIE_VERIF"

_done = False


def setup():
    global _done
    if _done:
        return
    os.environ[GUARD] = "1"
    sys.dont_write_bytecode = True
    if SRC in sys.path:
        sys.path.remove(SRC)
    sys.path.insert(0, SRC)
    for name in list(sys.modules):
        if name == "batchie" or name.startswith("batchie."):
            del sys.modules[name]
    warnings.filterwarnings("ignore")
    import batchie  # noqa

    check_origin()
    logging.getLogger("batchie").setLevel(logging.CRITICAL)
    logging.getLogger("batchie").propagate = False
    _done = True


def check_origin():
    for name, mod in list(sys.modules.items()):
        if name == "batchie" or name.startswith("batchie."):
            f = getattr(mod, "__file__", None)
            if f and not os.path.abspath(f).startswith(SRC + os.sep):
                raise RuntimeError(
                    "module %s imported from %s, not from %s" % (name, f, SRC)
                )


def quiet_logging():
    """CLI mains add a stream handler on every call; drop them again."""
    lg = logging.getLogger("batchie")
    for h in list(lg.handlers):
        lg.removeHandler(h)
    lg.addHandler(logging.NullHandler())
    # verbosity is a configuration like any other: every second shard runs batchie with DEBUG logging enabled
    # (records are discarded, but code guarded by logger.isEnabledFor(DEBUG) runs)
    lg.setLevel(logging.DEBUG if os.environ.get("VF_LOG_DEBUG") == "1" else logging.CRITICAL)


_ORCH_CODE = {}


def load_orchestrator(name="orch", optimize=None):
    """Load nextflow/scripts/batchie.py of the tree under test as a module.  optimize=1 compiles it the way
    `python -O batchie.py` would (assert statements stripped); None follows the running interpreter."""
    import types

    path = os.path.join(REPO, "nextflow", "scripts", "batchie.py")
    with open(path, encoding="utf-8") as f:
        src = f.read()
    key = (path, optimize, hash(src))
    code = _ORCH_CODE.get(key)
    if code is None:
        code = _ORCH_CODE[key] = compile(src, path, "exec", optimize=-1 if optimize is None else int(optimize), dont_inherit=True)
    mod = types.ModuleType(name)
    mod.__file__ = path
    sys.modules[name] = mod
    exec(code, mod.__dict__)
    mod.logger.handlers[:] = []
    mod.logger.setLevel(logging.CRITICAL)
    mod.logger.propagate = False
    return mod
