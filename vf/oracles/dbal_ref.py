"""Direct, unpadded, loop-by-loop evaluation of the documented DBAL estimator (C05 reference)."""
import math
from itertools import combinations


def logsumexp(xs):
    m = max(xs)
    if m == float("-inf"):
        return float("-inf")
    return m + math.log(math.fsum(math.exp(x - m) for x in xs))


def plate_score(means, variances, dist, distance_factor=1.0):
    """means, variances: lists [theta][experiment] of floats for ONE plate; dist: [theta][theta]."""
    T = len(means)
    E = len(means[0]) if T else 0
    terms = []
    for i, j, k in combinations(range(T), 3):
        dsum = dist[i][j] + dist[j][k] + dist[i][k]
        ld = distance_factor * (math.log(dsum) if dsum > 0 else float("-inf"))
        parts = []
        for e in range(E):
            vi, vj, vk = variances[i][e], variances[j][e], variances[k][e]
            a = vi * vj + vj * vk + vi * vk
            dij = means[i][e] - means[j][e]
            dik = means[i][e] - means[k][e]
            djk = means[j][e] - means[k][e]
            parts.append(-0.5 * math.log(a))
            parts.append(-0.5 * vi * vj * vk / (a * a) * (vk * dij * dij + vj * dik * dik + vi * djk * djk))
        terms.append(ld + math.fsum(parts))
    return logsumexp(terms)
