"""C01 oracle: identifiers are a faithful, dense encoding.  Pure Python over (name, dose)."""
import numpy as np


def _pairs(names, doses):
    return [(str(n), float(d)) for n, d in zip(np.asarray(names).ravel().tolist(), np.asarray(doses).ravel().tolist())]


def mapping_self_consistent(tm, control):
    """row id -1 <=> row is control, non-control ids dense and unique"""
    names, doses, ids = tm
    ids = [int(x) for x in np.asarray(ids).tolist()]
    nc = []
    for (n, d), i in zip(_pairs(names, doses), ids):
        isc = (n == control) or (d <= 0)
        if (i == -1) != isc:
            return False
        if i != -1:
            nc.append(i)
    return sorted(nc) == list(range(len(nc)))


def check_screen(screen, tn, td, sn, pn, control, supplied_tm=None, supplied_sm=None, strict_control=True):
    """Return list of (key, message) problems.  tn/td/sn/pn are the constructor arrays."""
    out = []
    tn = np.asarray(tn)
    td = np.asarray(td)
    n, arity = tn.shape
    tids = np.asarray(screen.treatment_ids)
    if tids.shape != (n, arity):
        return [("C01/ids/shape", "treatment_ids shape %r for data %r" % (tids.shape, (n, arity)))]
    if tids.dtype.kind not in "iu":
        out.append(("C01/ids/not-integer", "treatment_ids dtype %s" % tids.dtype))
        return out
    mnames, mdoses, mids = screen.treatment_mapping
    mpairs = _pairs(mnames, mdoses)
    mids_l = [int(x) for x in np.asarray(mids).tolist()]
    if not (len(mpairs) == len(mids_l)):
        return [("C01/mapping/ragged", "mapping arrays of unequal length")]
    by_id = {}
    for p, i in zip(mpairs, mids_l):
        by_id.setdefault(i, []).append(p)

    # (4) supplied mapping followed verbatim
    if supplied_tm is not None:
        sp = _pairs(supplied_tm[0], supplied_tm[1])
        si = [int(x) for x in np.asarray(supplied_tm[2]).tolist()]
        if sp != mpairs or si != mids_l:
            # 0.0 / -0.0 compare equal, which is what 'verbatim' can mean for floats; names exact
            out.append(("C01/mapping/not-verbatim", "stored treatment mapping differs from the supplied one"))

    consistent = True
    if supplied_tm is not None and not strict_control:
        consistent = mapping_self_consistent(screen.treatment_mapping, control)

    # (3) density / uniqueness on the mapping
    nc_ids = sorted(i for i in mids_l if i != -1)
    if supplied_tm is None or consistent:
        if nc_ids != list(range(len(nc_ids))):
            out.append(("C01/mapping/not-dense", "non-control mapping ids %r are not 0..n-1 each once" % (nc_ids[:20],)))
        ncp = [p for p, i in zip(mpairs, mids_l) if i != -1]
        if len(set(ncp)) != len(ncp):
            out.append(("C01/mapping/duplicate-pair", "a (name,dose) pair occurs under two ids"))

    # (1),(2) per experiment
    data_nc_ids = set()
    for i in range(n):
        for a in range(arity):
            name, dose = str(tn[i, a]), float(td[i, a])
            tid = int(tids[i, a])
            is_control = (name == control) or (dose <= 0)
            if consistent and (tid == -1) != is_control:
                out.append(("C01/control/misclassified", "row %d col %d (%r, %r) control=%r got id %d (control name %r)" % (i, a, name, dose, is_control, tid, control)))
                continue
            rows = by_id.get(tid, [])
            if tid == -1:
                if not any(p[0] == name and p[1] == dose for p in rows):
                    out.append(("C01/decode/control-pair-missing", "row %d col %d (%r,%r) has id -1 but the mapping lists no such control row" % (i, a, name, dose)))
            else:
                data_nc_ids.add(tid)
                if len(rows) != 1:
                    out.append(("C01/decode/ambiguous", "id %d decodes to %d mapping rows" % (tid, len(rows))))
                elif not (rows[0][0] == name and rows[0][1] == dose):
                    out.append(("C01/decode/wrong-pair", "row %d col %d is (%r,%r) but id %d decodes to %r" % (i, a, name, dose, tid, rows[0])))
            if len(out) > 8:
                return out
    if supplied_tm is None:
        if sorted(data_nc_ids) != list(range(len(data_nc_ids))):
            out.append(("C01/ids/not-dense", "non-control ids in the data %r are not 0..n-1" % (sorted(data_nc_ids)[:20],)))
        # a fresh mapping lists exactly the distinct pairs of the data
        dpairs = set(_pairs(tn, td))
        if set(mpairs) != dpairs and {(a, abs(b) if b == 0 else b) for a, b in mpairs} != {(a, abs(b) if b == 0 else b) for a, b in dpairs}:
            out.append(("C01/mapping/not-the-data-pairs", "fresh mapping rows differ from the distinct pairs of the data"))

    # samples and plates
    for what, ids, names, mp, sup in (
        ("sample", screen.sample_ids, sn, screen.sample_mapping, supplied_sm),
        ("plate", screen.plate_ids, pn, screen.plate_mapping, None),
    ):
        ids = np.asarray(ids)
        names = [str(x) for x in np.asarray(names).tolist()]
        if ids.shape != (n,) or ids.dtype.kind not in "iu":
            out.append(("C01/%s/ids-shape" % what, "%s ids shape %r dtype %s" % (what, ids.shape, ids.dtype)))
            continue
        mn = [str(x) for x in np.asarray(mp[0]).tolist()]
        mi = [int(x) for x in np.asarray(mp[1]).tolist()]
        if sup is not None:
            if [str(x) for x in np.asarray(sup[0]).tolist()] != mn or [int(x) for x in np.asarray(sup[1]).tolist()] != mi:
                out.append(("C01/%s/mapping-not-verbatim" % what, "stored %s mapping differs from the supplied one" % what))
        if sorted(mi) != list(range(len(mi))):
            out.append(("C01/%s/mapping-not-dense" % what, "%s mapping ids %r" % (what, sorted(mi)[:20])))
        if len(set(mn)) != len(mn):
            out.append(("C01/%s/mapping-duplicate-name" % what, "%s mapping lists a name twice" % what))
        dec = dict(zip(mi, mn))
        for i in range(n):
            if dec.get(int(ids[i])) != names[i]:
                out.append(("C01/%s/decode" % what, "row %d %s %r has id %d which decodes to %r" % (i, what, names[i], int(ids[i]), dec.get(int(ids[i])))))
                break
        if sup is None:
            if sorted(set(int(x) for x in ids.tolist())) != list(range(len(set(names)))):
                out.append(("C01/%s/ids-not-dense" % what, "%s ids in the data are not 0..n-1" % what))
            if set(mn) != set(names):
                out.append(("C01/%s/mapping-not-the-data-names" % what, "fresh %s mapping differs from the names in the data" % what))
    return out


def check_space(screen, ExperimentSpace):
    out = []
    sp = ExperimentSpace.from_screen(screen)
    tids = np.asarray(screen.treatment_ids)
    if tids.size and not (sp.n_unique_treatments > int(tids.max())):
        out.append(("C01/space/treatment-bound", "n_unique_treatments=%d does not bound max treatment id %d" % (sp.n_unique_treatments, int(tids.max()))))
    sids = np.asarray(screen.sample_ids)
    if sids.size and not (sp.n_unique_samples > int(sids.max())):
        out.append(("C01/space/sample-bound", "n_unique_samples=%d does not bound max sample id %d" % (sp.n_unique_samples, int(sids.max()))))
    return out
