"""Full conditionals of the sparse combination model, derived from the model statement (C08 oracle).

    mu_i = alpha + W0[c] + V0[a] + V0[b] + W[c].(V1[a] + V1[b]) + W[c].(V2[a] o V2[b]),  y_i ~ N(mu_i, 1/prec)
    W0[c] ~ N(0, 1/tau0)   V0[m] ~ N(0, 1/(phi0[m] eta0))   W[c,d] ~ N(0, 1/tau[d]),  tau[d] = prod_{l<=d} gam_l
    V1[m,d] ~ N(0, 1/(phi1[m,d] eta1[d]))   V2[m,d] ~ N(0, 1/(phi2[m,d] eta2[d]))
    prec ~ Ga(a0, b0)   tau0 ~ Ga(a0, b0)   gam_1 ~ Ga(2, 1), gam_{l>1} ~ Ga(3, 1)
    phi ~ Ga(1/2, phiaux), phiaux ~ Ga(1/2, 1);  eta ~ Ga(1/2, etaaux), etaaux ~ Ga(1/2, 1)
    control terms (id -1) are zero; alpha := mean(y)

Everything is computed in float64 from the parameters of a state snapshot, never from the
sampler's cached fitted values.
"""
import numpy as np


def zc(arr, ids):
    """rows of arr at ids, zero where the id is the control sentinel"""
    out = np.asarray(arr, dtype=np.float64)[ids].copy()
    out[np.asarray(ids) == -1] = 0.0
    return out


def mu(st, cline, dd1, dd2):
    W = st["W"][cline]
    return (
        st["alpha"]
        + st["W0"][cline]
        + zc(st["V0"], dd1)
        + zc(st["V0"], dd2)
        + np.sum(W * (zc(st["V1"], dd1) + zc(st["V1"], dd2)), axis=-1)
        + np.sum(W * zc(st["V2"], dd1) * zc(st["V2"], dd2), axis=-1)
    )


def rows_of_sample(cline, c):
    return np.flatnonzero(cline == c)


def rows_of_treatment(dd1, dd2, m):
    return np.flatnonzero(dd1 == m), np.flatnonzero(dd2 == m)


# ------------------------------------------------------------------ Gaussian blocks
def cond_W0(st, y, cline, dd1, dd2, c):
    idx = rows_of_sample(cline, c)
    if len(idx) == 0:
        return 0.0, 1.0 / np.sqrt(st["tau0"]), 0
    r = y[idx] - mu(st, cline[idx], dd1[idx], dd2[idx]) + st["W0"][c]
    p = st["prec"] * len(idx) + st["tau0"]
    return st["prec"] * r.sum() / p, 1.0 / np.sqrt(p), len(idx)


def cond_V0(st, y, cline, dd1, dd2, m):
    i1, i2 = rows_of_treatment(dd1, dd2, m)
    idx = np.concatenate([i1, i2])
    prior = st["phi0"][m] * st["eta0"]
    if len(idx) == 0:
        return 0.0, 1.0 / np.sqrt(prior), 0
    r = y[idx] - mu(st, cline[idx], dd1[idx], dd2[idx]) + st["V0"][m]
    p = st["prec"] * len(idx) + prior
    return st["prec"] * r.sum() / p, 1.0 / np.sqrt(p), len(idx)


def cond_W(st, y, cline, dd1, dd2, c):
    idx = rows_of_sample(cline, c)
    prior = np.asarray(st["tau"], dtype=np.float64)
    if len(idx) == 0:
        return None, np.diag(prior), 0
    X = zc(st["V2"], dd1[idx]) * zc(st["V2"], dd2[idx]) + zc(st["V1"], dd1[idx]) + zc(st["V1"], dd2[idx])
    r = y[idx] - mu(st, cline[idx], dd1[idx], dd2[idx]) + X @ st["W"][c]
    Q = st["prec"] * (X.T @ X) + np.diag(prior)
    b = st["prec"] * (X.T @ r)
    return b, Q, len(idx)


def _cond_V(st, y, cline, dd1, dd2, m, which):
    i1, i2 = rows_of_treatment(dd1, dd2, m)
    idx = np.concatenate([i1, i2])
    other = np.concatenate([dd2[i1], dd1[i2]])
    phi, eta, V = ("phi2", "eta2", "V2") if which == 2 else ("phi1", "eta1", "V1")
    prior = np.asarray(st[phi][m], dtype=np.float64) * np.asarray(st[eta], dtype=np.float64)
    if len(idx) == 0:
        return None, np.diag(prior), 0
    Wc = st["W"][cline[idx]]
    X = Wc * zc(st["V2"], other) if which == 2 else Wc
    r = y[idx] - mu(st, cline[idx], dd1[idx], dd2[idx]) + X @ st[V][m]
    Q = st["prec"] * (X.T @ X) + np.diag(prior)
    b = st["prec"] * (X.T @ r)
    return b, Q, len(idx)


def cond_V2(st, y, cline, dd1, dd2, m):
    return _cond_V(st, y, cline, dd1, dd2, m, 2)


def cond_V1(st, y, cline, dd1, dd2, m):
    return _cond_V(st, y, cline, dd1, dd2, m, 1)


# ------------------------------------------------------------------ conjugate precision updates (shape, rate)
def cond_prec_obs(st, y, cline, dd1, dd2, a0, b0):
    n = len(y)
    if n == 0:
        return a0, b0
    sse = np.square(y - mu(st, cline, dd1, dd2)).sum()
    return a0 + 0.5 * n, b0 + 0.5 * sse


def cond_tau0(st, n_clines, a0, b0):
    return a0 + 0.5 * n_clines, b0 + 0.5 * np.square(st["W0"]).sum()


def cond_gam(st, gam_now, d, n_clines, D):
    """multiplicative gamma process (Bhattacharya & Dunson 2011): gam_d | rest"""
    gam_now = np.asarray(gam_now, dtype=np.float64)
    ssq = np.square(st["W"]).sum(axis=0)  # per dimension
    rate = 1.0
    for h in range(d, D):
        prod = 1.0
        for l in range(0, h + 1):
            if l != d:
                prod *= gam_now[l]
        rate += 0.5 * prod * ssq[h]
    shape = (2.0 if d == 0 else 3.0) + 0.5 * n_clines * (D - d)
    return shape, rate


def cond_phi_aux(phi):
    return 1.0, 1.0 + np.asarray(phi, dtype=np.float64)


def cond_phi(aux, eta, V):
    return 1.0, np.asarray(aux, dtype=np.float64) + 0.5 * np.asarray(eta, dtype=np.float64) * np.square(np.asarray(V, dtype=np.float64))


def cond_eta_aux(eta):
    return 1.0, 1.0 + np.asarray(eta, dtype=np.float64)


def cond_eta(aux, phi, V, n_dd):
    s = (np.asarray(phi, dtype=np.float64) * np.square(np.asarray(V, dtype=np.float64))).sum(axis=0)
    return 0.5 * (1 + n_dd), np.asarray(aux, dtype=np.float64) + 0.5 * s
