"""Child process: run one shard of one property and write its event log as JSON."""
import faulthandler
import importlib
import json
import sys


def main():
    prop, tier, seed, shard, nshards, out = sys.argv[1:7]
    seed, shard, nshards = int(seed), int(shard), int(nshards)
    faulthandler.enable()
    from vf import repoimport, kit

    repoimport.setup()
    mod = importlib.import_module("vf.props." + prop.lower())
    rec = kit.Recorder(prop, tier, seed, shard, nshards)
    mod.run_shard(rec, tier, seed, shard, nshards)
    repoimport.check_origin()
    with open(out, "w") as f:
        json.dump(rec.result(), f)


if __name__ == "__main__":
    main()
