"""Child process: run one shard of one property and write its event log as JSON."""
import faulthandler
import importlib
import json
import sys


def _die_with_parent():
    """A shard whose parent is gone (killed run) must not keep the cores busy: ask the kernel for SIGKILL on parent
    death and, as a fallback, poll the parent pid."""
    import os
    import threading
    import time

    ppid = os.getppid()
    try:
        import ctypes

        ctypes.CDLL(None, use_errno=True).prctl(1, 9, 0, 0, 0)  # PR_SET_PDEATHSIG, SIGKILL
    except Exception:
        pass

    def poll():
        while True:
            time.sleep(5)
            if os.getppid() != ppid:
                os._exit(98)

    threading.Thread(target=poll, daemon=True).start()


def main():
    prop, tier, seed, shard, nshards, out = sys.argv[1:7]
    seed, shard, nshards = int(seed), int(shard), int(nshards)
    faulthandler.enable()
    _die_with_parent()
    from vf import repoimport, kit

    import os

    if shard % 2 == 1 and os.environ.get("VF_LOG_DEBUG") is None:
        os.environ["VF_LOG_DEBUG"] = "1"
    repoimport.setup()
    repoimport.quiet_logging()
    mod = importlib.import_module("vf.props." + prop.lower())
    rec = kit.Recorder(prop, tier, seed, shard, nshards)
    mod.run_shard(rec, tier, seed, shard, nshards)
    repoimport.check_origin()
    rec.count("shards_with_debug_logging" if os.environ.get("VF_LOG_DEBUG") == "1" else "shards_with_default_logging")
    with open(out, "w") as f:
        json.dump(rec.result(), f)


if __name__ == "__main__":
    main()
