"""Child process: run one shard of one property and write its event log as JSON."""
import faulthandler
import importlib
import json
import sys


def _die_with_parent():
    """A shard whose parent is gone (killed run) must not keep the cores busy: ask the kernel for SIGKILL on parent
    death and, as a fallback, poll the parent pid."""
    import os
    import threading
    import time

    ppid = os.getppid()
    try:
        import ctypes

        ctypes.CDLL(None, use_errno=True).prctl(1, 9, 0, 0, 0)  # PR_SET_PDEATHSIG, SIGKILL
    except Exception:
        pass

    def poll():
        while True:
            time.sleep(5)
            if os.getppid() != ppid:
                os._exit(98)

    threading.Thread(target=poll, daemon=True).start()


def process_mode(shard):
    """Process-wide settings a user may legitimately have are a configuration like any other (cf. DEBUG logging).
    By default every fourth shard runs with the cyclic garbage collector disabled.  VF_PROCESS_MODE=fperr (numpy raises on
    divide / invalid / overflow) and =warnerr (warnings are errors) exist for experiments only: the harness's own
    generators overflow on purpose, so those two are not part of the registered checks (DESIGN 0.4, round 17)."""
    import os

    mode = os.environ.get("VF_PROCESS_MODE") or ["plain", "plain", "nogc", "plain"][shard % 4]
    if mode == "nogc":
        import gc

        gc.disable()
    elif mode == "fperr":
        import numpy as np

        np.seterr(divide="raise", invalid="raise", over="raise")
    elif mode == "warnerr":
        import warnings

        warnings.resetwarnings()
        warnings.simplefilter("error")
    return mode


def main():
    prop, tier, seed, shard, nshards, out = sys.argv[1:7]
    seed, shard, nshards = int(seed), int(shard), int(nshards)
    faulthandler.enable()
    _die_with_parent()
    from vf import repoimport, kit

    import os

    if shard % 2 == 1 and os.environ.get("VF_LOG_DEBUG") is None:
        os.environ["VF_LOG_DEBUG"] = "1"
    repoimport.setup()
    repoimport.quiet_logging()
    mode = process_mode(shard)
    mod = importlib.import_module("vf.props." + prop.lower())
    rec = kit.Recorder(prop, tier, seed, shard, nshards)
    try:
        mod.run_shard(rec, tier, seed, shard, nshards)
    except Exception as e:
        # a workload that trips over the consequences of a violation it has already recorded (e.g. a mask that is
        # suddenly all-true) must not lose that record: report what was seen; without a recorded violation the shard
        # dies as before and the run is inconclusive
        if not rec.violations:
            raise
        import traceback

        rec.notes.append("shard %d aborted after recording %d violation(s): %r\n%s" % (shard, len(rec.violations), e, traceback.format_exc()[-800:]))
    repoimport.check_origin()
    rec.count("shards_in_process_mode_" + mode)
    try:
        from vf import gen

        rec.count("generated_screens_with_arrays_in_other_containers", gen.DRESSED[0])
        rec.count("posterior_sample_blocks_in_other_containers", gen.DRESSED_THETA_BLOCKS[0])
    except Exception:
        pass
    rec.count("shards_under_python_O" if not __debug__ else "shards_with_asserts_enabled")
    rec.count("shards_with_debug_logging" if os.environ.get("VF_LOG_DEBUG") == "1" else "shards_with_default_logging")
    with open(out, "w") as f:
        json.dump(rec.result(), f)


if __name__ == "__main__":
    main()
