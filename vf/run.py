"""Entry point:  python -m vf.run C08 --tier quick|thorough [--replay FILE]

Runs the property's shards in child processes (subprocess.run with a watchdog, never
multiprocessing.Pool), merges their event logs, classifies violations against
known_findings.json, writes evidence/<id>.json, prints the verdict.

exit 0  held on everything explored (KNOWN-FINDING lines possible)
exit 1  VIOLATION property=<id> replay=<path>
exit 3  inconclusive (watchdog, dead child, deciding monitor below its minimum count)
"""
import argparse
import importlib
import json
import os
import subprocess
import sys
import time
from concurrent.futures import ThreadPoolExecutor

ROOT = os.path.dirname(os.path.dirname(os.path.abspath(__file__)))
PY = sys.executable


def load_known(prop):
    path = os.path.join(ROOT, "known_findings.json")
    if not os.path.exists(path):
        return {}, {}
    with open(path) as f:
        data = json.load(f)
    open_, fixed = {}, {}
    for e in data.get("findings", []):
        if e.get("property") != prop:
            continue
        (open_ if e.get("status") == "open" else fixed)[e["key"]] = e
    return open_, fixed


def run_one_shard(prop, tier, seed, shard, nshards, timeout, outdir, only_case=None):
    out = os.path.join(outdir, "%s.%s.%d.json" % (prop, tier, shard))
    if os.path.exists(out):
        os.remove(out)
    env = dict(os.environ)
    env["PYTHONPATH"] = ROOT + os.pathsep + env.get("PYTHONPATH", "")
    env.setdefault("PYTHONHASHSEED", "0")
    env["OMP_NUM_THREADS"] = "1"
    env["OPENBLAS_NUM_THREADS"] = "1"
    env["MKL_NUM_THREADS"] = "1"
    cmd = [PY, "-B", "-m", "vf.shard", prop, tier, str(seed), str(shard), str(nshards), out]
    # interpreter flags are a configuration like any other: every fourth shard runs under `python -O` (assert statements
    # stripped, __debug__ False), which a deployment may legitimately use; VF_PYOPT=1 / 0 forces it on / off everywhere
    pyopt = os.environ.get("VF_PYOPT")
    if pyopt == "1" or (pyopt is None and shard % 4 == 3):
        cmd.insert(1, "-O")
    t0 = time.time()
    try:
        p = subprocess.run(cmd, cwd=ROOT, env=env, timeout=timeout, stdout=subprocess.PIPE, stderr=subprocess.PIPE)
    except subprocess.TimeoutExpired:
        return {"shard": shard, "status": "watchdog", "wall_s": time.time() - t0}
    if p.returncode != 0 or not os.path.exists(out):
        return {
            "shard": shard,
            "status": "died",
            "rc": p.returncode,
            "stderr": p.stderr.decode("utf-8", "replace")[-3000:],
            "wall_s": time.time() - t0,
        }
    with open(out) as f:
        r = json.load(f)
    os.remove(out)
    r["status"] = "ok"
    return r


def main(argv=None):
    ap = argparse.ArgumentParser()
    ap.add_argument("prop")
    ap.add_argument("--tier", default=os.environ.get("VERIF_TIER", "quick"), choices=["quick", "thorough"])
    ap.add_argument("--replay", default=None)
    ap.add_argument("--jobs", type=int, default=int(os.environ.get("VERIF_JOBS", "16")))
    args = ap.parse_args(argv)
    prop = args.prop.upper()
    tier = args.tier
    seed = int(os.environ.get("VERIF_SEED", "0") or 0)
    only_shards = None
    if args.replay:
        with open(args.replay) as f:
            rp = json.load(f)
        seed, tier = int(rp["seed"]), rp["tier"]
        only_shards = [int(rp["shard"])]

    sys.path.insert(0, ROOT)
    mod = importlib.import_module("vf.props." + prop.lower())
    nshards = mod.SHARDS[tier]
    timeout = mod.TIMEOUT[tier]
    t0 = time.time()
    import tempfile

    # every scratch directory of this run (the children's too) lives under one root per filesystem, removed when the
    # run ends - also when a child was killed by the watchdog and could not clean up after itself
    import shutil

    import signal

    signal.signal(signal.SIGTERM, lambda *a: sys.exit(143))  # so that the finally below runs
    base = os.environ.get("VERIF_SCRATCH", "/var/tmp")
    os.makedirs(base, exist_ok=True)
    run_root = tempfile.mkdtemp(prefix="vf-run-", dir=base)
    roots = [run_root]
    os.environ["VERIF_RUN_ROOT"] = run_root
    if "VERIF_SCRATCH" not in os.environ and os.path.isdir("/dev/shm") and os.access("/dev/shm", os.W_OK):
        fast_root = tempfile.mkdtemp(prefix="vf-run-", dir="/dev/shm")
        roots.append(fast_root)
        os.environ["VERIF_RUN_ROOT_FAST"] = fast_root
    outdir = tempfile.mkdtemp(prefix="vf-res-", dir=run_root)
    shards = only_shards if only_shards is not None else list(range(nshards))
    try:
        with ThreadPoolExecutor(max_workers=max(1, args.jobs)) as ex:
            results = list(ex.map(lambda s: run_one_shard(prop, tier, seed, s, nshards, timeout, outdir), shards))
    finally:
        for r_ in roots:
            shutil.rmtree(r_, ignore_errors=True)

    # ---------------------------------------------------------------- merge
    evaluations = 0
    distinct = set()
    counters = {}
    samples = []
    violations = []
    vcounts = {}
    dnr = {}
    notes = []
    problems = []
    for r in results:
        if r["status"] != "ok":
            problems.append(r)
            continue
        evaluations += r["evaluations"]
        distinct.update(r["distinct"])
        for k, v in r["counters"].items():
            if k.startswith("max_"):
                counters[k] = max(counters.get(k, v), v)
            else:
                counters[k] = counters.get(k, 0) + v
        if len(samples) < 5:
            samples.extend(r["samples"][: 5 - len(samples)])
        violations.extend(r["violations"])
        for k, v in r.get("violation_counts", {}).items():
            vcounts[k] = vcounts.get(k, 0) + v
        for k, v in r["dnr"].items():
            dnr[k] = dnr.get(k, 0) + v
        notes.extend(r.get("notes", [])[:3])

    open_, fixed = load_known(prop)
    known_hit = {}
    new_viol = []
    for v in violations:
        if v["key"] in open_:
            known_hit.setdefault(v["key"], v)
        else:
            new_viol.append(v)

    # ---------------------------------------------------------------- inconclusive?
    inconclusive = []
    for p in problems:
        inconclusive.append("shard %s %s" % (p["shard"], p["status"]))
    required = getattr(mod, "REQUIRED", {})
    if only_shards is None:
        for name, spec in required.items():
            need = spec[tier] if isinstance(spec, dict) else spec
            if counters.get(name, 0) < need:
                inconclusive.append("monitor counter %s=%s below minimum %s" % (name, counters.get(name, 0), need))

    wall = time.time() - t0
    extra = {}
    if hasattr(mod, "coverage_extra"):
        extra = mod.coverage_extra(tier, counters) or {}
    coverage = {
        "evaluations": int(evaluations),
        "distinct_nontrivial": len(distinct),
        "rule": mod.RULE,
        "samples": samples,
        "monitor_counters": counters,
        "did_not_return": dnr,
        "shards": len(shards),
        "shards_failed": [{"shard": p["shard"], "status": p["status"]} for p in problems],
        "violation_keys": vcounts,
        "known_findings_seen": sorted(known_hit),
        "inconclusive_reasons": inconclusive,
        "repo": os.environ.get("VERIF_REPO", "/repo"),
    }
    coverage.update(extra)
    if notes:
        coverage["notes"] = notes[:10]
    evidence = {
        "property_id": prop,
        "tier": tier,
        "seed": seed,
        "level": mod.LEVEL,
        "coverage": coverage,
        "assumptions": list(getattr(mod, "ASSUMPTIONS", [])),
        "wall_s": round(wall, 2),
        "violations": len(new_viol),
    }
    if not args.replay and not os.environ.get("VERIF_NO_EVIDENCE"):
        os.makedirs(os.path.join(ROOT, "evidence"), exist_ok=True)
        with open(os.path.join(ROOT, "evidence", prop + ".json"), "w") as f:
            json.dump(evidence, f, indent=1, sort_keys=True)

    # ---------------------------------------------------------------- verdict
    print(
        "%s tier=%s seed=%d evaluations=%d distinct=%d oracle_evals=%s wall=%.1fs"
        % (prop, tier, seed, evaluations, len(distinct), counters.get("oracle_evals"), wall)
    )
    for k in sorted(counters):
        print("  counter %s = %s" % (k, counters[k]))
    for k, v in sorted(dnr.items()):
        print("  did-not-return %s = %d" % (k, v))
    for key, v in sorted(known_hit.items()):
        print("KNOWN-FINDING: property=%s %s [%s] (seen %d times)" % (prop, open_[key]["what"], key, vcounts.get(key, 1)))
    for p in problems:
        print("  shard %s: %s %s" % (p["shard"], p["status"], p.get("stderr", "")[-1500:]))
    if new_viol:
        rdir = os.path.join(ROOT, "replays", prop)
        os.makedirs(rdir, exist_ok=True)
        seen = set()
        for i, v in enumerate(new_viol):
            if v["key"] in seen:
                continue
            seen.add(v["key"])
            path = os.path.join(rdir, "%s-%s-seed%d-%d.json" % (prop, tier, seed, len(seen)))
            with open(path, "w") as f:
                json.dump({"property": prop, "tier": tier, "seed": seed, "shard": v["shard"], "case_index": v["case_index"], "key": v["key"], "message": v["message"], "witness": v["witness"], "count": vcounts.get(v["key"])}, f, indent=1)
            print("  [%s] %s" % (v["key"], v["message"][:600]))
            print("VIOLATION property=%s replay=%s" % (prop, path))
        return 1
    if inconclusive:
        for r in inconclusive:
            print("INCONCLUSIVE: %s" % r)
        return 3
    print("HELD property=%s on %d evaluations (%d distinct non-trivial)" % (prop, evaluations, len(distinct)))
    return 0


if __name__ == "__main__":
    sys.exit(main())
