"""Instrumentation kit: recorder, patching, comparators, in-process CLI runner."""
import contextlib
import hashlib
import json
import os
import shutil
import sys
import tempfile
import time
import traceback

import numpy as np


# --------------------------------------------------------------------------- recorder
class Recorder:
    """Event log of one shard: cases, counters, samples, violations."""

    MAX_VIOL_PER_KEY = 5
    MAX_SAMPLES = 4

    def __init__(self, prop, tier, seed, shard, nshards):
        self.prop = prop
        self.tier = tier
        self.seed = seed
        self.shard = shard
        self.nshards = nshards
        self.evaluations = 0
        self.distinct = set()
        self.counters = {}
        self.samples = []
        self.violations = []
        self._viol_per_key = {}
        self.dnr = {}
        self.notes = []
        self.case_index = -1
        self.t0 = time.time()

    # one generated case / execution
    def case(self, abstract=None, nontrivial=True):
        self.evaluations += 1
        self.case_index += 1
        if nontrivial and abstract is not None:
            self.distinct.add(digest(abstract))

    def distinct_only(self, abstract):
        self.distinct.add(digest(abstract))

    def count(self, name, n=1):
        self.counters[name] = self.counters.get(name, 0) + int(n)

    def maxi(self, name, v):
        v = float(v)
        if name not in self.counters or v > self.counters[name]:
            self.counters[name] = v

    def sample(self, obj):
        if len(self.samples) < self.MAX_SAMPLES:
            self.samples.append(jsonable(obj))

    def did_not_return(self, what, exc=None):
        k = what if exc is None else "%s:%s" % (what, type(exc).__name__)
        self.dnr[k] = self.dnr.get(k, 0) + 1

    def violation(self, key, message, witness=None):
        n = self._viol_per_key.get(key, 0)
        self._viol_per_key[key] = n + 1
        if n < self.MAX_VIOL_PER_KEY:
            self.violations.append(
                {
                    "key": key,
                    "message": str(message)[:2000],
                    "witness": jsonable(witness),
                    "shard": self.shard,
                    "case_index": self.case_index,
                }
            )

    def check(self, cond, key, message, witness=None):
        """Count an oracle evaluation; record a violation when cond is false."""
        self.count("oracle_evals")
        if not cond:
            self.violation(key, message() if callable(message) else message, witness)
        return bool(cond)

    def result(self):
        return {
            "prop": self.prop,
            "shard": self.shard,
            "evaluations": self.evaluations,
            "distinct": sorted(self.distinct),
            "counters": self.counters,
            "samples": self.samples,
            "violations": self.violations,
            "violation_counts": self._viol_per_key,
            "dnr": self.dnr,
            "notes": self.notes,
            "wall_s": time.time() - self.t0,
        }


def digest(obj):
    return hashlib.sha1(repr(obj).encode("utf-8", "surrogatepass")).hexdigest()[:16]


def jsonable(o, depth=0):
    if depth > 6:
        return repr(o)[:200]
    if o is None or isinstance(o, (bool, int, str)):
        return o
    if isinstance(o, float):
        if o != o or o in (float("inf"), float("-inf")):
            return repr(o)
        return o
    if isinstance(o, (np.integer,)):
        return int(o)
    if isinstance(o, (np.floating,)):
        return jsonable(float(o))
    if isinstance(o, (np.bool_,)):
        return bool(o)
    if isinstance(o, np.ndarray):
        if o.size > 200:
            return {"ndarray": list(o.shape), "dtype": str(o.dtype), "head": jsonable(o.ravel()[:20].tolist(), depth + 1)}
        return jsonable(o.tolist(), depth + 1)
    if isinstance(o, dict):
        return {str(k): jsonable(v, depth + 1) for k, v in list(o.items())[:200]}
    if isinstance(o, (list, tuple, set, frozenset)):
        return [jsonable(v, depth + 1) for v in list(o)[:200]]
    return repr(o)[:500]


# --------------------------------------------------------------------------- patching
class Patches:
    """Reversible attribute patches (class attributes, module globals)."""

    def __init__(self):
        self._undo = []

    def set(self, obj, name, value):
        missing = object()
        if isinstance(obj, type):
            old = obj.__dict__.get(name, missing)
        else:
            old = getattr(obj, name, missing)
        self._undo.append((obj, name, old, missing))
        setattr(obj, name, value)

    def wrap(self, obj, name, make_wrapper):
        """make_wrapper(original) -> replacement"""
        if isinstance(obj, type):
            raw = obj.__dict__[name]
        else:
            raw = getattr(obj, name)
        orig = raw
        kind = None
        if isinstance(raw, staticmethod):
            orig, kind = raw.__func__, staticmethod
        elif isinstance(raw, classmethod):
            orig, kind = raw.__func__, classmethod
        new = make_wrapper(orig)
        if kind is not None:
            new = kind(new)
        self.set(obj, name, new)
        return orig

    def undo(self):
        for obj, name, old, missing in reversed(self._undo):
            if old is missing:
                try:
                    delattr(obj, name)
                except AttributeError:
                    pass
            else:
                setattr(obj, name, old)
        self._undo = []

    def __enter__(self):
        return self

    def __exit__(self, *a):
        self.undo()


# --------------------------------------------------------------------------- comparators
def raw_bytes(a):
    a = np.ascontiguousarray(a)
    return a.view(np.uint8).tobytes() if a.size else b""


def bytes_equal(a, b):
    a = np.asarray(a)
    b = np.asarray(b)
    if a.shape != b.shape:
        return False
    if a.dtype != b.dtype:
        return False
    return raw_bytes(a) == raw_bytes(b)


def str_equal(a, b):
    """String arrays by value (the <U width may legitimately change)."""
    a = np.asarray(a)
    b = np.asarray(b)
    if a.shape != b.shape:
        return False
    return [str(x) for x in a.ravel().tolist()] == [str(x) for x in b.ravel().tolist()]


def num_equal_bits(a, b):
    """Numeric arrays: same shape and same bits after casting b to a's dtype kind
    (accepts a value-preserving widening of ints, never a change of float bits)."""
    a = np.asarray(a)
    b = np.asarray(b)
    if a.shape != b.shape:
        return False
    if a.dtype.kind == "f" or b.dtype.kind == "f":
        if a.dtype != b.dtype:
            return False
        return raw_bytes(a) == raw_bytes(b)
    return np.array_equal(a.astype(np.int64), b.astype(np.int64))


def array_hash(a):
    a = np.asarray(a)
    if a.dtype == object or a.dtype.kind in "US":
        return digest([str(x) for x in a.ravel().tolist()] + [a.shape])
    return hashlib.sha1(raw_bytes(a) + repr((a.shape, str(a.dtype))).encode()).hexdigest()[:16]


def close(a, b, rel=1e-9, abs_=0.0):
    a = np.asarray(a, dtype=float)
    b = np.asarray(b, dtype=float)
    if a.shape != b.shape:
        return False
    both_nan = np.isnan(a) & np.isnan(b)
    same_inf = (a == b) & np.isinf(a)
    with np.errstate(invalid="ignore"):
        ok = np.abs(a - b) <= abs_ + rel * (1.0 + np.abs(b))
    return bool(np.all(ok | both_nan | same_inf))


# --------------------------------------------------------------------------- misc
@contextlib.contextmanager
def scratch_dir(prefix="vf-", fast=False):
    base = os.environ.get("VERIF_RUN_ROOT") or os.environ.get("VERIF_SCRATCH", "/var/tmp")
    if fast and os.environ.get("VERIF_RUN_ROOT_FAST"):
        base = os.environ["VERIF_RUN_ROOT_FAST"]  # tmpfs: workloads made of thousands of tiny directory trees
    elif fast and "VERIF_RUN_ROOT" not in os.environ and "VERIF_SCRATCH" not in os.environ and os.path.isdir("/dev/shm") and os.access("/dev/shm", os.W_OK):
        base = "/dev/shm"
    os.makedirs(base, exist_ok=True)
    d = tempfile.mkdtemp(prefix=prefix, dir=base)
    try:
        yield d
    finally:
        shutil.rmtree(d, ignore_errors=True)


def run_cli(main, argv):
    """Run a batchie CLI main() in-process with sys.argv patched."""
    from . import repoimport

    old = sys.argv
    argv = [str(a) for a in argv]
    if os.environ.get("VF_LOG_DEBUG") == "1" and "-v" not in argv and "--verbose" not in argv:
        argv = argv + [["-v"], ["--verbose"], ["-v", "-P"]][len(argv) % 3]  # the command's own verbosity flags
    sys.argv = ["prog"] + argv
    try:
        return main()
    finally:
        sys.argv = old
        repoimport.quiet_logging()


def returns(rec, what, fn, *a, **k):
    """Call fn; (True, value) if it returned, (False, exc) if it raised."""
    try:
        return True, fn(*a, **k)
    except Exception as e:  # noqa
        rec.did_not_return(what, e)
        return False, e


def tb():
    return traceback.format_exc()[-1500:]


def rng_for(seed, prop_no, shard, *extra):
    return np.random.default_rng(np.random.SeedSequence([int(seed), int(prop_no), int(shard), *[int(e) for e in extra]]))


# --------------------------------------------------------------------------- equal values, other containers
_twin_calls = [0]


def twin_rng(seed, advance=0, route=None):
    """A generator in exactly the state of ``default_rng(seed)`` after ``advance`` draws, reached by another route on
    every call: built directly, copied with deepcopy, pickled and loaded, its state restored into a generator that was
    seeded otherwise (a checkpoint), or after children were spawned from it (spawning does not move the stream)."""
    import copy
    import pickle

    _twin_calls[0] += 1
    g = np.random.default_rng(seed)
    if advance:
        g.random(advance)
    route = _twin_calls[0] % 5 if route is None else route
    if route == 1:
        return copy.deepcopy(g)
    if route == 2:
        return pickle.loads(pickle.dumps(g))
    if route == 3:
        h = np.random.default_rng(987654321)
        h.random(3)
        h.bit_generator.state = g.bit_generator.state
        return h
    if route == 4:
        g.spawn(2)
        return g
    return g


DRESSES = ("plain", "readonly", "strided", "reversed", "fortran", "offset")


def dress(rng, a, kind=None):
    """The same values and dtype in another container: a read-only copy, every second element of a bigger buffer, a
    negatively strided view, column-major storage, a window into a bigger buffer.  Returns (array, kind)."""
    a = np.asarray(a)
    kind = kind or str(rng.choice(DRESSES))
    if a.ndim == 0 or a.shape[0] == 0:
        kind = "readonly" if kind != "plain" else kind
    if kind == "readonly":
        b = a.copy()
        b.flags.writeable = False
    elif kind == "strided":
        big = np.empty((2 * a.shape[0],) + a.shape[1:], dtype=a.dtype)
        big[::2] = a
        big[1::2] = a[::-1]
        b = big[::2]
    elif kind == "reversed":
        b = a[::-1].copy()[::-1]
    elif kind == "fortran":
        b = np.asfortranarray(a) if a.ndim >= 2 else a[::-1].copy()[::-1]
    elif kind == "offset":
        big = np.empty((a.shape[0] + 5,) + a.shape[1:], dtype=a.dtype)
        big[:3] = a[:1]
        big[-2:] = a[-1:]
        big[3:-2] = a
        b = big[3:-2]
    else:
        b = a.copy()
    return b, kind
