"""Seeded generators of hostile and realistic inputs."""
import os

import numpy as np

HOSTILE_NAMES = [
    "", "a", "A", "a ", " a", "a\t", "b", "B", "ab", "ctl", "DMSO", "control", "0", "1", "10", "01",
    "é", "é", "漢字", "nan", "None", "NaN", "-1", "drug with spaces", "x" * 31, "ß", "SS",
    "\U0001f9ea", "a,b", "a=b", "null",
]
HOSTILE_DOSES = [
    0.0, -0.0, -1.0, -5e-324, 5e-324, 1e-320, 2.2250738585072014e-308, 1.0, float(np.nextafter(1.0, 2.0)),
    float(np.nextafter(1.0, 0.0)), 2.0, 0.5, 10.0, 1e308, 1e-3, 3.0,
]


def unique_obs(n, rng=None, shuffle=True):
    """pairwise distinct doubles in (0,1): identify a row after any reshuffle"""
    v = (np.arange(n, dtype=float) + 1.0) / (n + 2.0)
    if shuffle and rng is not None:
        v = rng.permutation(v)
    return v


def hostile_screen_kwargs(rng, n=None, arity=None, max_names=6):
    """Constructor arguments of a hostile screen (for C01/C02)."""
    if n is None:
        n = int(rng.integers(1, 41))
        if rng.random() < 0.004:
            n = int(rng.choice([257, 1000, 2049, 4097]))  # beyond any plausible internal block size
    if arity is None:
        arity = int(rng.integers(1, 4))
    control = str(rng.choice(HOSTILE_NAMES)) if rng.random() < 0.7 else ""
    k = int(rng.integers(1, max_names + 1))
    tn_pool = [str(x) for x in rng.choice(HOSTILE_NAMES, size=k, replace=False)]
    if rng.random() < 0.6 and control not in tn_pool:
        tn_pool.append(control)
    kd = int(rng.integers(1, 6))
    d_pool = [float(x) for x in rng.choice(HOSTILE_DOSES, size=kd, replace=False)]
    ks = int(rng.integers(1, 6))
    s_pool = [str(x) for x in rng.choice(HOSTILE_NAMES, size=ks, replace=False)]
    kp = int(rng.integers(1, 6))
    p_pool = [str(x) for x in rng.choice(HOSTILE_NAMES, size=kp, replace=False)]
    tn = np.array([[tn_pool[int(rng.integers(len(tn_pool)))] for _ in range(arity)] for _ in range(n)], dtype=str).reshape(n, arity)
    td = np.array([[d_pool[int(rng.integers(len(d_pool)))] for _ in range(arity)] for _ in range(n)], dtype=float).reshape(n, arity)
    sn = np.array([s_pool[int(rng.integers(len(s_pool)))] for _ in range(n)], dtype=str)
    pn = np.array([p_pool[int(rng.integers(len(p_pool)))] for _ in range(n)], dtype=str)
    if arity >= 2 and rng.random() < 0.2:
        # the same values in another memory layout: column-major arrays (np.array([col_a, col_b]).T,
        # DataFrame[[...]].to_numpy()) are what callers who build the table column by column hand over
        which = int(rng.integers(0, 3))
        if which in (0, 2):
            tn = np.asfortranarray(tn)
        if which in (1, 2):
            td = np.asfortranarray(td)
    kw = dict(treatment_names=tn, treatment_doses=td, sample_names=sn, plate_names=pn, control_treatment_name=control)
    mode = int(rng.integers(0, 4))
    if mode >= 1:
        obs = unique_obs(n, rng)
        kw["observations"] = obs
        if mode >= 2:
            mask = np.zeros(n, dtype=bool)
            for p in np.unique(pn):
                if rng.random() < 0.5:
                    mask[pn == p] = True
            kw["observation_mask"] = mask
    return kw


def realistic_screen_kwargs(
    rng,
    n_samples=(1, 5),
    n_drugs=(2, 6),
    n_doses=(1, 3),
    n_rows=(4, 60),
    n_plates=(1, 8),
    p_single=0.25,
    p_dup=0.15,
    p_double_control=0.0,
    control="",
    plate_per_sample=False,
    observed=None,
    arity=2,
    singletons=0.0,
    unicode_names=False,
    tiny_doses=False,
):
    """Arity-2 (or 1) combination screen with unique observation tags.
    tiny_doses: doses in molar units (1e-10 ...), some of which differ only far behind the decimal point.
    unicode_names: every sample / treatment / plate name (not the control name) gets a non-ASCII suffix.

    observed: None -> all rows observed (mask all true); "none" -> no plate observed;
    "some" -> random non-empty proper subset of plates observed when possible; "random".
    singletons: fraction of extra samples / (drug,dose) that occur exactly once.
    """
    ns = int(rng.integers(n_samples[0], n_samples[1] + 1))
    nd = int(rng.integers(n_drugs[0], n_drugs[1] + 1))
    ndo = int(rng.integers(n_doses[0], n_doses[1] + 1))
    n = int(rng.integers(n_rows[0], n_rows[1] + 1))
    samples = ["s%02d" % i for i in range(ns)]
    drugs = ["d%02d" % i for i in range(nd)]
    doses = [float(x) for x in (0.1, 1.0, 10.0, 0.5, 2.0)[:ndo]]
    if tiny_doses:
        doses = [float(x) for x in (1e-10, 3e-10, np.nextafter(1e-10, 1.0), 2.5e-10, 1e-10 + 1e-19)[: max(2, ndo)]]
    rows = []
    for _ in range(n):
        s = samples[int(rng.integers(ns))]
        if rows and rng.random() < p_dup:
            s0, t0, dd0 = rows[int(rng.integers(len(rows)))]
            rows.append((s0 if rng.random() < 0.7 else s, t0, dd0))
            continue
        t = []
        dd = []
        for a in range(arity):
            t.append(drugs[int(rng.integers(nd))])
            dd.append(doses[int(rng.integers(ndo))])
        if arity == 3:
            if nd >= 3:
                pick = rng.choice(nd, size=3, replace=False)
                t = [drugs[int(i)] for i in pick]
            u = rng.random()
            if u < p_double_control:
                t, dd = [control] * 3, [0.0] * 3
            elif u < p_double_control + p_single:
                keep = int(rng.integers(3))  # single agent: control in the two other columns
                for a in range(3):
                    if a != keep:
                        if rng.random() < 0.5:
                            t[a] = control
                        dd[a] = 0.0
            elif u < p_double_control + 2 * p_single:
                a = int(rng.integers(3))  # partial combination: control in one column
                t[a] = control
                dd[a] = 0.0
        if arity == 2:
            if t[0] == t[1]:
                # a drug paired with itself: choose another drug when possible
                if nd > 1:
                    t[1] = drugs[(drugs.index(t[0]) + 1 + int(rng.integers(nd - 1))) % nd]
            u = rng.random()
            if u < p_double_control:
                t = [control, control]
                dd = [0.0, 0.0]
            elif u < p_double_control + p_single:
                pos = int(rng.integers(2))
                if rng.random() < 0.5:
                    t[pos] = control
                    dd[pos] = 0.0
                else:
                    dd[pos] = 0.0  # control by dose
        rows.append((s, tuple(t), tuple(dd)))
    n_single = int(round(singletons * len(rows)))
    for i in range(n_single):
        # sample / condition that occurs exactly once in the whole screen
        s = "zz_once%02d" % i if rng.random() < 0.5 else samples[int(rng.integers(ns))]
        t = ["once%02d" % i if rng.random() < 0.6 else drugs[int(rng.integers(nd))], drugs[int(rng.integers(nd))]][:arity]
        dd = [7.0 + i if rng.random() < 0.5 else doses[0]] + [doses[int(rng.integers(ndo))]]
        rows.append((s, tuple(t), tuple(dd[:arity])))
    order = rng.permutation(len(rows))
    rows = [rows[i] for i in order]
    n = len(rows)
    sn = np.array([r[0] for r in rows], dtype=str)
    tn = np.array([list(r[1]) for r in rows], dtype=str).reshape(n, arity)
    td = np.array([list(r[2]) for r in rows], dtype=float).reshape(n, arity)
    npl = int(rng.integers(n_plates[0], n_plates[1] + 1))
    if plate_per_sample:
        pn = np.empty(n, dtype=object)
        for s in np.unique(sn):
            idx = np.where(sn == s)[0]
            k = int(rng.integers(1, max(2, min(npl, len(idx)) + 1)))
            lab = rng.integers(0, k, size=len(idx))
            for i, l in zip(idx, lab):
                pn[i] = "%s_p%d" % (s, l)
        pn = pn.astype(str)
    else:
        pn = np.array(["p%02d" % int(x) for x in rng.integers(0, npl, size=n)], dtype=str)
    if unicode_names:
        sfx = ["\u03b2", "\u2032", "\u2212", "\u00e9", "\u00b5M", "\u65e5\u672c", "\u00df"]

        def deco(arr, keep=()):
            m = {}
            for x in np.unique(arr):
                x = str(x)
                m[x] = x if (x in keep or x == "") else x + sfx[int(rng.integers(len(sfx)))]
            return np.array([m[str(x)] for x in arr.ravel()], dtype=str).reshape(arr.shape)

        sn, pn, tn = deco(sn), deco(pn), deco(tn, keep=(control,))
        # names that differ only in a surrounding blank are different names
        if rng.random() < 0.6:
            for arr in (sn, pn):
                x = str(rng.choice(np.unique(arr)))
                if x and not x.endswith(" "):
                    rows_ = np.flatnonzero(arr == x)
                    twin = x + " " if rng.random() < 0.5 else " " + x
                    arr_new = arr.astype("<U%d" % (max(len(a_) for a_ in arr.tolist()) + 2))
                    arr_new[rows_[rng.random(len(rows_)) < 0.5]] = twin
                    if arr is sn:
                        sn = arr_new
                    else:
                        pn = arr_new
            x = str(rng.choice([t_ for t_ in np.unique(tn) if t_ not in (control, "")] or [""]))
            if x:
                tn = tn.astype("<U%d" % (max(len(a_) for a_ in tn.ravel().tolist()) + 2))
                hit = np.argwhere(tn == x)
                for r_, c_ in hit[rng.random(len(hit)) < 0.5]:
                    tn[r_, c_] = x + " "
    obs = unique_obs(n, rng)
    kw = dict(treatment_names=tn, treatment_doses=td, sample_names=sn, plate_names=pn, control_treatment_name=control, observations=obs)
    plates = np.unique(pn)
    if observed is not None:
        mask = np.zeros(n, dtype=bool)
        if observed == "some":
            k = int(rng.integers(1, len(plates))) if len(plates) > 1 else 0
            for p in rng.choice(plates, size=k, replace=False):
                mask[pn == p] = True
        elif observed == "random":
            for p in plates:
                if rng.random() < 0.5:
                    mask[pn == p] = True
        elif observed == "all":
            mask[:] = True
        kw["observation_mask"] = mask
    if os.environ.get("VF_NO_DRESS") != "1" and rng.random() < 0.2:
        # the same values in other containers (all writeable: workloads edit what they generate): every second element
        # of a bigger buffer, a negatively strided view, column-major tables, a window into a bigger buffer - what
        # slicing a data frame or a bigger array hands over
        from . import kit

        for k_ in ("treatment_names", "treatment_doses", "sample_names", "plate_names", "observations", "observation_mask"):
            if k_ in kw and rng.random() < 0.7:
                kw[k_] = kit.dress(rng, kw[k_], kind=str(rng.choice(["strided", "reversed", "fortran", "offset"])))[0]
        DRESSED[0] += 1
    return kw


DRESSED = [0]
DRESSED_THETA_BLOCKS = [0]


def row_table(screen):
    """Immutable row table keyed by the unique observation tag."""
    t = {}
    for i in range(screen.size):
        t[float(screen.observations[i])] = (
            str(screen.sample_names[i]),
            tuple(str(x) for x in screen.treatment_names[i]),
            tuple(float(x) for x in screen.treatment_doses[i]),
            str(screen.plate_names[i]),
            bool(screen.observation_mask[i]),
        )
    return t


def rows_multiset(screen, with_plate=False, with_mask=False):
    from collections import Counter

    c = Counter()
    for i in range(screen.size):
        key = (
            str(screen.sample_names[i]),
            tuple(str(x) for x in screen.treatment_names[i]),
            tuple(float(x).hex() for x in screen.treatment_doses[i]),
            float(screen.observations[i]).hex(),
        )
        if with_plate:
            key += (str(screen.plate_names[i]),)
        if with_mask:
            key += (bool(screen.observation_mask[i]),)
        c[key] += 1
    return c


def random_sparse_combo_theta(rng, n_samples, n_treatments, D=None, scale=None):
    from batchie.models.sparse_combo import SparseDrugComboMCMCSample

    if D is None:
        D = int(rng.integers(1, 5))
    if scale is None:
        scale = float(rng.choice([1e-3, 0.1, 1.0, 3.0, 1e3]))
    def c_(a):
        # a posterior sample's blocks may live in any container: read-only (a memory-mapped chain file, a sample shared
        # between workers), strided, column-major, a window into a chain-sized buffer.  Prediction is pure.
        if os.environ.get("VF_NO_DRESS") == "1" or rng.random() >= 0.15:
            return a
        from . import kit

        DRESSED_THETA_BLOCKS[0] += 1
        return kit.dress(rng, a)[0]

    th = SparseDrugComboMCMCSample(
        W=c_(rng.normal(size=(n_samples, D)) * scale),
        W0=c_(rng.normal(size=(n_samples,)) * scale),
        V2=c_(rng.normal(size=(n_treatments, D)) * scale),
        V1=c_(rng.normal(size=(n_treatments, D)) * scale),
        V0=c_(rng.normal(size=(n_treatments,)) * scale),
        alpha=float(rng.normal() * scale),
        precision=float(np.exp(rng.normal() * 2)),
    )
    return th


def random_interaction_theta(rng, n_samples, n_treatments, D=None, scale=None, lookup=None):
    from batchie.models.sparse_combo_interaction import SparseDrugComboInteractionMCMCSample

    if D is None:
        D = int(rng.integers(1, 5))
    if scale is None:
        scale = float(rng.choice([1e-3, 0.1, 1.0, 3.0]))
    if lookup is None:
        lookup = {}
        for c in range(n_samples):
            lookup[(c, -1)] = 1.0
            for m in range(n_treatments):
                lookup[(c, m)] = float(rng.uniform(0.0, 1.2))
    return SparseDrugComboInteractionMCMCSample(
        W=rng.normal(size=(n_samples, D)) * scale,
        V2=rng.normal(size=(n_treatments, D)) * scale,
        precision=float(np.exp(rng.normal() * 2)),
        single_effect_lookup=lookup,
    )
