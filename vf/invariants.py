"""Class-level invariants installed from the harness (invariant-at-a-hook)."""
import numpy as np

from .oracles import encoding


def install_screen_init_invariant(rec, P, strict_control=False, sample_every=1, want=("C01", "C12")):
    """Post-condition on Screen.__init__: C01 encoding oracle + C12 per-plate uniformity/defaults.
    Runs for every screen constructed anywhere while installed."""
    from batchie import data as D

    state = {"n": 0}

    def mk(orig):
        def __init__(self, treatment_names, treatment_doses, sample_names, plate_names, observations=None, observation_mask=None, control_treatment_name="", treatment_mapping=None, sample_mapping=None):
            orig(self, treatment_names, treatment_doses, sample_names, plate_names, observations=observations, observation_mask=observation_mask, control_treatment_name=control_treatment_name, treatment_mapping=treatment_mapping, sample_mapping=sample_mapping)
            state["n"] += 1
            if state["n"] % sample_every:
                return
            rec.count("screen_init_observed")
            try:
                if "C01" in want and np.all(np.isfinite(np.asarray(treatment_doses, dtype=float))):
                    probs = encoding.check_screen(self, treatment_names, treatment_doses, sample_names, plate_names, control_treatment_name, treatment_mapping, sample_mapping, strict_control=strict_control)
                    probs += encoding.check_space(self, D.ExperimentSpace)
                    rec.count("oracle_evals")
                    for key, msg in probs[:3]:
                        rec.violation(key, msg, {"hook": "Screen.__init__", "n": int(np.asarray(treatment_names).shape[0])})
                if "C12" in want:
                    pn = np.asarray(plate_names)
                    m = np.asarray(self.observation_mask)
                    rec.count("oracle_evals")
                    for p in np.unique(pn):
                        sel = m[pn == p]
                        if sel.size and not (sel.all() or (~sel).all()):
                            rec.violation("C12/constructor/mixed-plate-accepted", "plate %r has mixed observation status in a constructed screen" % str(p), {"hook": "Screen.__init__"})
                            break
            except Exception as e:  # an oracle crash must not masquerade as a repo failure
                rec.count("invariant_oracle_errors")
                rec.notes.append("screen invariant oracle error: %r" % (e,))

        return __init__

    P.wrap(D.Screen, "__init__", mk)
