"""pytest plugin (-p vf.pytest_plugin): the repository's own tests as an extra workload.

Installs the class-level invariants selected by VF_PLUGIN_WANT (comma list of C01,C12,C14,C09)
while the suite runs and writes the monitor's event log to VF_PLUGIN_OUT.
"""
import json
import os

_state = {}


def pytest_configure(config):
    from vf import kit, invariants

    want = tuple(x for x in os.environ.get("VF_PLUGIN_WANT", "C01,C12").split(",") if x)
    rec = kit.Recorder("plugin", "thorough", 0, 0, 1)
    P = kit.Patches()
    if "C01" in want or "C12" in want:
        invariants.install_screen_init_invariant(rec, P, strict_control=False, want=want)
    if "C14" in want:
        from vf.props import c14

        c14.install_view_invariant(rec, P, sample_every=3)
    if "C09" in want:
        from vf.props import c09

        c09.install_purity_monitor(rec, P)
    _state["rec"] = rec
    _state["P"] = P


def pytest_unconfigure(config):
    rec = _state.get("rec")
    if rec is None:
        return
    _state["P"].undo()
    out = os.environ.get("VF_PLUGIN_OUT")
    if out:
        with open(out, "w") as f:
            json.dump(rec.result(), f)
