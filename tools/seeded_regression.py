#!/usr/bin/env python3
"""Run every stored seeded change (seeded/*/patch.diff) against its property's check on a scratch copy of /repo.
Writes seeded/REGRESSION.json: {id: {rc, keys}}.   usage: tools/seeded_regression.py [--tier quick] [--jobs 5] [--only id,id,...  (updates those entries of REGRESSION.json)]"""
import argparse, glob, json, os, shutil, subprocess, sys, tempfile
from concurrent.futures import ThreadPoolExecutor

ROOT = os.path.dirname(os.path.dirname(os.path.abspath(__file__)))


def one(d, tier, check_jobs):
    sid = os.path.basename(d)
    prop = sid.split("-")[0]
    scratch = tempfile.mkdtemp(prefix="vf-reg-", dir="/var/tmp")
    try:
        subprocess.run(["rsync", "-a", "--exclude", ".git", "--exclude", "__pycache__", "/repo/", scratch + "/"], check=True)
        subprocess.run(["git", "init", "-q", "."], cwd=scratch, stdout=subprocess.DEVNULL, stderr=subprocess.DEVNULL)
        p = subprocess.run(["git", "apply", "--whitespace=nowarn", os.path.join(d, "patch.diff")], cwd=scratch, stdout=subprocess.PIPE, stderr=subprocess.STDOUT)
        if p.returncode:
            return sid, {"rc": None, "status": "patch does not apply to the current tree", "detail": p.stdout.decode()[-300:]}
        env = dict(os.environ, VERIF_REPO=scratch, VERIF_NO_EVIDENCE="1", VERIF_JOBS=str(check_jobs))
        p = subprocess.run(["/venv/bin/python", "-B", "-m", "vf.run", prop, "--tier", tier], cwd=ROOT, env=env, stdout=subprocess.PIPE, stderr=subprocess.STDOUT)
        out = p.stdout.decode("utf-8", "replace")
        keys = sorted({l.strip().split("]")[0][1:] for l in out.splitlines() if l.strip().startswith("[" + prop)})
        expected_held = False
        try:
            expected_held = json.load(open(os.path.join(d, "meta.json"))).get("expected") == "held"
        except Exception:
            pass
        if expected_held:
            # a stored change that, on inspection, does not violate the property as stated: the check must stay silent
            return sid, {"rc": p.returncode, "status": "caught" if p.returncode == 0 else "ALARM ON A CHANGE THAT KEEPS THE PROPERTY", "keys": keys[:8], "expected": "held"}
        return sid, {"rc": p.returncode, "status": "caught" if p.returncode == 1 else "NOT CAUGHT", "keys": keys[:8]}
    finally:
        shutil.rmtree(scratch, ignore_errors=True)


def main():
    ap = argparse.ArgumentParser()
    ap.add_argument("--tier", default="quick")
    ap.add_argument("--jobs", type=int, default=5)
    ap.add_argument("--check-jobs", type=int, default=4)
    ap.add_argument("--only")
    a = ap.parse_args()
    dirs = sorted(d for d in glob.glob(os.path.join(ROOT, "seeded", "C*-[afgh]*")) if os.path.exists(os.path.join(d, "patch.diff")))
    if a.only:
        dirs = [d for d in dirs if os.path.basename(d) in a.only.split(",")]
    with ThreadPoolExecutor(max_workers=a.jobs) as ex:
        res = dict(ex.map(lambda d: one(d, a.tier, a.check_jobs), dirs))
    for k in sorted(res):
        print("%-8s %-10s %s" % (k, res[k]["status"], ",".join(res[k].get("keys", []))[:140]))
    bad = [k for k, v in res.items() if v["status"] != "caught"]
    out = os.path.join(ROOT, "seeded", "REGRESSION.json")
    if a.only and os.path.exists(out):
        # a partial run updates the entries it covers and keeps the others
        allres = json.load(open(out)).get("results", {})
        allres.update(res)
    else:
        allres = res
    json.dump({"tier": a.tier, "results": allres}, open(out, "w"), indent=1, sort_keys=True)
    print("%d seeded changes, %d caught, not caught: %s" % (len(res), len(res) - len(bad), bad))
    return 1 if bad else 0


if __name__ == "__main__":
    sys.exit(main())
