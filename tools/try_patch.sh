#!/bin/bash
# usage: tools/try_patch.sh <patch.diff> <property ...>     (env TIER=quick|thorough, SEED=n)
# Copies /repo's working tree to a scratch directory outside /repo and /verif, applies the patch there,
# runs the named checks against the copy (VERIF_REPO), prints their verdict lines, removes the copy.
set -u
patch=$(readlink -f "$1"); shift
tier=${TIER:-quick}
scratch=$(mktemp -d /var/tmp/vf-mut-XXXXXX)
rsync -a --exclude .git --exclude __pycache__ /repo/ "$scratch/"
( cd "$scratch" && git init -q . >/dev/null 2>&1 && git apply --whitespace=nowarn "$patch" ) || { echo "PATCH-DOES-NOT-APPLY $patch"; rm -rf "$scratch"; exit 2; }
cd "$(dirname "$0")/.."
for p in "$@"; do
  out=$(VERIF_REPO=$scratch VERIF_SEED=${SEED:-0} VERIF_NO_EVIDENCE=1 /venv/bin/python -B -m vf.run "$p" --tier "$tier" 2>&1)
  code=$?
  echo "== $p rc=$code :: $(echo "$out" | grep -E '^(HELD|INCONCLUSIVE)' | head -2 | tr '\n' ' ')"
  echo "$out" | grep -E '^\s+\[' | cut -c1-260 | head -6
done
rm -rf "$scratch"
