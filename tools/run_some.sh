#!/bin/bash
# usage: tools/run_some.sh <tier> <seed> <property ...>   - like run_all.sh for the named properties only
tier=$1; seed=$2; shift 2
cd "$(dirname "$0")/.."
rc=0
for p in "$@"; do
  start=$(date +%s)
  out=$(VERIF_SEED=$seed VERIF_NO_EVIDENCE=${VERIF_NO_EVIDENCE:-1} /venv/bin/python -B -m vf.run $p --tier $tier 2>&1)
  code=$?
  end=$(date +%s)
  echo "$p seed=$seed tier=$tier rc=$code wall=$((end-start))s :: $(echo "$out" | grep -E "^(HELD|VIOLATION|INCONCLUSIVE|KNOWN-FINDING)" | head -3 | tr '\n' ' ')"
  if [ $code -ne 0 ]; then rc=1; echo "$out" | grep -E "^\s+\[|shard" | head -8; fi
done
exit $rc
