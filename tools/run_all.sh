#!/bin/bash
# usage: tools/run_all.sh <tier> [seed...]   - runs every check, prints one verdict line per (property, seed)
tier=${1:-quick}; shift
seeds=${@:-0}
cd "$(dirname "$0")/.."
rc=0
for seed in $seeds; do
  for p in C01 C02 C03 C04 C05 C06 C07 C08 C09 C10 C11 C12 C13 C14 C15 C16 C17 C18 C19 C20; do
    start=$(date +%s)
    out=$(VERIF_SEED=$seed VERIF_NO_EVIDENCE=${VERIF_NO_EVIDENCE:-1} /venv/bin/python -B -m vf.run $p --tier $tier 2>&1)
    code=$?
    end=$(date +%s)
    echo "$p seed=$seed tier=$tier rc=$code wall=$((end-start))s :: $(echo "$out" | grep -E "^(HELD|VIOLATION|INCONCLUSIVE|KNOWN-FINDING)" | head -3 | tr '\n' ' ')"
    if [ $code -ne 0 ]; then rc=1; echo "$out" | grep -E "^\s+\[|shard" | head -8; fi
  done
done
exit $rc
