#!/usr/bin/env python3
"""Regenerate MANIFEST.json from the table below (keeps it valid at all times)."""
import json
import os

ROOT = os.path.dirname(os.path.dirname(os.path.abspath(__file__)))
PY = "/venv/bin/python -B -m vf.run"
COMMON = " Every second shard runs batchie with DEBUG logging enabled and passes -v to the commands it runs, every fourth shard runs under python -O (assert statements stripped), another fourth with the cyclic garbage collector off; a fifth of the generated screens and 15 % of the posterior-sample blocks hand their arrays over in other containers (strided, reversed, column-major, offset windows, read-only where nothing writes); workloads include the stored seeded changes' input classes (seeded/*/meta.json): degenerate but legal data, numerically delicate regimes, objects with a past (refused calls followed by legal ones, long-lived scorer / smoother / policy objects, copies by copy / deepcopy / pickle), arrays and lists the caller keeps and rewrites, equivalent spellings of a call (positional / keyword, list / set / tuple, str / Path), user-defined subclasses of the library's base classes, one configuration per run at real-world scale, files and objects with a past (paths that held another object before, generators / smoothers / scorers applied to other data before), second runs at the other verbosity and with generators in equal state made by other routes."

CHECKS = {
    "C01": dict(
        cat="exploration",
        text="Post-condition oracle (pure-Python dict model over (name,dose)) on every Screen constructed from thousands of seeded hostile inputs, on re-constructions with a superset mapping batchie produced (object and fixed-width name arrays), on re-constructions from refilled buffers (same array objects, changed content), and on rejection cases (uncovered rows, gaps, names that extend a listed name), on screens the library builds itself from other screens (Screen.combine / Screen.concat, judged against the concatenated raw arrays and the parts' control name) and on plate ids after in-place Plate.merge with whole plates and partial views; thorough also observes every Screen built by the repo's own tests. Bijection claim over all inputs: exploration with an exact oracle is what runtime monitoring can give.",
        ref="4/C01",
        note="Trusts numpy/pandas string handling; NaN doses and NUL-containing names excluded; held only on the generated cases.",
        technique="runtime post-condition monitor on Screen.__init__ + reference encoder (dict model)",
    ),
    "C15": dict(
        cat="exploration",
        text="Every index for n<=40 (quick) / n<=64 (thorough), k<=4 is unranked by the real function and re-ranked by an independent big-int rank (complete for that finite sub-space); boundary/uniform samples for n up to 5000; the real DBAL kernel's triples are intercepted and checked distinct/in-range/complete (also in the production regime n_thetas 60-300), and a counting run (identical samples, unit variances and distances) reads off the score how many triples were evaluated.",
        ref="4/C15",
        note="n>5000 and k>4 unexplored; rank oracle is the combinatorial number system identity.",
        technique="rank/unrank identity oracle + intercepted scorer calls",
    ),
    "C07": dict(
        cat="exploration",
        text="Set-algebra oracle on the real chunk index function over the complete (n_thetas, n_chunks) grid for small n plus sampled n<=400; every chunk computed by the real function with a recording metric, saved, loaded and concatenated in random orders with repetition, compared byte-wise with the single-chunk matrix and with metric(pred_i,pred_j) recomputed by the harness; incomplete matrices must refuse to densify; inputs of concat must stay unchanged and concat must be repeatable; complete matrices of 129-300 samples go through save/load.",
        ref="4/C07",
        note="Assembly explored for n_thetas<=9; harness stub thetas with prescribed predictions and real sparse-combo samples; h5py trusted.",
        technique="reference set algebra + differential (single-chunk vs any assembly order) monitor on real h5 chunk files",
    ),
    "C16": dict(
        cat="exploration",
        text="Exhaustive DFS over all selection histories (every allowed plate made best-scoring in turn through the real select_next_plate and policy) for every shape with <=3 samples x <=4 plates, k<=4, with and without observed plates; random walks with random scores (ties, -inf) on larger screens, half of them over several batches with the finished batch revealed in place on the same Screen object; the statement's clauses are evaluated at every recorded (batch, remaining) state.",
        ref="4/C16",
        note="Shapes beyond 3x4 (k>4) only by random walks up to 6 samples x 8 plates, k<=5.",
        technique="history enumeration through the real policy + clause checker on every reachable state",
    ),
    "C17": dict(
        cat="exploration",
        text="A step-counting model whose exported state carries the step counter reads off the recorded steps for the complete (burn-in, thin, count) grid; the real SparseDrugCombo is run with counting wrappers; the generator handed to set_rng is captured per (seed, n_chains, chain) and compared by bit-generator state and first 4096 outputs; schedules up to 120000 steps; VI stub asked for up to 4097 samples.",
        ref="4/C17",
        note="Stream non-overlap decided on a 4096-output prefix; grid bounds b<=12/24, t<=5/7, n<=8/12.",
        technique="call-order trace monitor with unique step tags + generator-state comparison",
    ),
    "C02": dict(
        cat="exploration",
        text="Every observable of hostile, superset-mapped (real hold-out split / supplied mapping), in-place merged (1-3 Plate.merge before the first save) and zero-row screens is compared field by field (strings by value, floats by bits, ids and mappings incl. rows absent from the data) after 1-4 real save_h5/load_h5 cycles, cycle k against cycle k-1; same for ExperimentSpace.",
        ref="4/C02",
        note="h5py/numpy trusted; files compared through loaded content; NUL-containing names excluded.",
        technique="round-trip differential monitor over real h5 files with bit-level comparators",
    ),
    "C03": dict(
        cat="exploration",
        text="Lineages through the real preparation path (mask, plate permutation, hold-out split with singletons that land only in the hold-out) followed by random histories of reveal/mask/unmask/save+load/reveal_plate CLI; every stage's ids are compared with the lineage root's name->id maps, embedding sizes must not shrink and a posterior sample sized by the root space must predict bit-identical means on rows matched by unique observation tags.",
        ref="4/C03",
        note="Histories up to 12 steps; root = the screen handed to the hold-out split; the monitor counts stages where a condition exists only in the hold-out and is inconclusive below a minimum.",
        technique="history monitor with lineage-root reference maps + cross-stage prediction differential",
    ),
    "C12": dict(
        cat="exploration",
        text="Branching operation histories (mask, unmask, reveal of fresh/observed/repeated/unknown id sets, set_observed of a plate in place, save+load, reveal_plate and extract_screen_metadata CLIs in-process) replayed against a reference model (dict plate->bool + immutable row table keyed by unique observation tags): mask, rows, plate labels, value bits and JSON counters compared after every step, all earlier stages are re-checked for changes after every operation; single-shot cases for constructor clauses, set_observed and zero/NaN refusals; thorough adds the repo test-suite under the per-plate uniformity invariant.",
        ref="4/C12",
        note="Histories up to 15 operations; refusal of all-zero values judged only when every revealed plate is all zero.",
        technique="history + executable reference model; class invariant on Screen.__init__",
    ),
    "C14": dict(
        cat="exploration",
        text="Random compositions (nesting depth up to 6) of subset/combine/concat/invert/get_plate/plates/observed/unobserved/to_screen/unique filter checked against an index-tuple reference model, all earlier views re-checked after every node (aliasing), cross-parent combine must raise; thorough adds index-algebra post-conditions on the view operations under the repo's own tests.",
        ref="4/C14",
        note="Screens up to 30 rows, up to 40 nodes per screen; Plate.merge excluded (documented mutation).",
        technique="reference model (sorted index tuples) over random operation trees + aliasing re-checks",
    ),
    "C11": dict(
        cat="exploration",
        text="Multiset conservation (keyed by unique observation tags) checked after every shipped generator, smoother and hold-out run with random (also useless) parameters and fresh/advanced/shared generator states; observed part must pass through unchanged; hold-out must partition with the right per-plate counts; the input screen is hashed before and after every call; 15% of the operations follow an in-place reveal (set_observed) on the same Screen object; wells with the control in every column, arities 1 and 3, and screens of 1500-4500 rows are part of the workload.",
        ref="4/C11",
        note="Operations that raise are counted as did-not-return, not judged; three readings of ceil(fraction x size) accepted.",
        technique="post-condition monitor with identity-tagged rows (multiset conservation) + input-mutation hash",
    ),
    "C13": dict(
        cat="exploration",
        text="Per-operation post-conditions on the returned screen (single-sample plates and size limit, sparse cover, combination filter reference, common/optimal size, per-sample minimum, greedy min-merge reference on per-sample size lists, ceil-halving for top-bottom, unions of whole same-sample plates) on screens that emphasise small samples, exact-limit samples, ties and single plates.",
        ref="4/C13",
        note="Operations that raise are did-not-return; NPlatePerCellLine judged on samples that still have unobserved experiments.",
        technique="post-condition monitors + small reference algorithms (greedy merge, optimal size)",
    ),
    "C05": dict(
        cat="exploration",
        text="Every plate score returned by the homoscedastic, heteroscedastic, vectorized and GaussianDBALScorer entry points (stub thetas with prescribed per-row means/variances and real samples) is compared at 1e-9(1+|ref|) with a scalar fsum evaluation of the documented estimator, and re-computed alone vs together, with shuffled experiments, shuffled plates, every max_chunk and relabelled thetas, and the same scorer object is called twice with the plates in another order.",
        ref="4/C05",
        note="n_thetas<=32 so all triples are enumerated; means bounded; reference is an independent loop implementation written from the statement.",
        technique="differential against a scalar reference + metamorphic monitors on the real kernel",
    ),
    "C06": dict(
        cat="exploration",
        text="A recording Scorer logs the ids and row selections handed to it by the real score_chunk for every chunk index and returns prescribed scores (finite, -inf, ties); exactly-once coverage and batch conditioning are decided by set algebra; chunk files are saved, loaded and combined in random orders and the real select_next_plate (recording / real k-per-sample policy) is checked for minimality among allowed plates; both CLIs run in-process on the same files; chunk jobs get the same seed / a seed per chunk / no generator / one shared generator; holders are queried before they are combined; one 110-140-plate screen per shard.",
        ref="4/C06",
        note="Batches are subsets of unobserved plates; NaN scores excluded; screens up to 10 plates.",
        technique="recording scorer/policy proxies + reference selection model over saved chunk files",
    ),
    "C09": dict(
        cat="exploration",
        text="For random parameters of both sample types and screens of arity 1/2 with controls in any column: a scalar reference recomputes every mean from (sample, unordered non-control treatments); subsets, row permutations, column swaps and single-agent twins (rebuilt with the same mappings) must agree; viability/variance formulas checked; screens of 4095-9001 rows are compared with a vectorised reference; a purity monitor wrapped around every predict_* method hashes the sample and the screen before and after each call; stacked/averaged helpers compared with per-sample predictions.",
        ref="4/C09",
        note="Interaction sample type judged against its own documented link; tolerances 1e-12 relative to term magnitude.",
        technique="scalar reference + metamorphic monitors + before/after hash purity monitor on predict_*",
    ),
    "C10": dict(
        cat="exploration",
        text="Holders of 1-25 samples per chain (both sample types, adversarial float64 parameters, unique tag per (chain, step)) are saved, loaded and compared bit for bit in order; concat is checked chain-major by tag identity; evaluate_model runs in-process with the chain files in random order and every prediction column / chain id is matched to the file position it came from; inputs of concat must stay unchanged; samples are used for prediction before they are saved; chains of 100-300 samples; refusal clauses are exercised.",
        ref="4/C10",
        note="Value-preserving dtype widening on load accepted; h5py trusted.",
        technique="round-trip differential with identity tags + CLI column/chain alignment monitor",
    ),
    "C20": dict(
        cat="exploration",
        text="Every listed metric (MSE, its variance over experiments, inter-chain variance, mean predictions, reload), single-agent effect maps/arrays (arity 2 and 3, repeated and exactly-zero measurements), Bliss synergy (strict/lenient), ill-conditioned prediction matrices (large common offset), calculate_mse, the full combinatoric space and the between-sample similarity matrix are recomputed by nested Python loops with math.fsum and compared.",
        ref="4/C20",
        note="Degenerate correlation rows (0/0) skipped and counted; inputs up to 30 experiments x 12 samples.",
        technique="differential against loop-based reference implementations",
    ),
    "C18": dict(
        cat="exploration",
        text="Every randomised operation named in the property is executed twice with identical inputs and an identically seeded generator; run A is bracketed by snapshots of numpy's and Python's global random state; between the runs the globals are reseeded differently and during run B unrelated global draws are injected at line granularity (sys.monitoring LINE events restricted to batchie's code); outputs compared through bytes / loaded h5 content; model training covers both MCMC models on fresh and on already sampled model objects, a well-behaved variational stub and the shipped pyro model (torch's global generator is snapshotted and perturbed too); CLI mains with --seed run in-process, and as fresh subprocesses under two PYTHONHASHSEED values (prepare step in quick, all steps in thorough).",
        ref="4/C18",
        note="Determinism is decided on the sampled inputs and seeds; injection granularity is one Python line of batchie code.",
        technique="differential (run twice) monitor + global-RNG state snapshots + line-granular injection of unrelated global draws",
    ),
    "C04": dict(
        cat="exploration",
        text="Non-interference decided on pairs of executions: two screens that differ only behind the mask (random, 0, 1, NaN, -1, 1e300) go through the real train -> distance chunks -> score chunks -> select path (both MCMC models, four scorers, chunk counts, batches, policy; thorough: the four CLI mains on files) with identical seeds and every artefact is compared byte-wise; a monitor on add_observations compares the sampler's training arrays with the documented row set and transform; refusal cases for masked rows (also Plate-typed multi-plate views), negative and NaN input, and the converse: a finite, non-negative, fully observed training set (values above 1 included) must be accepted; observations arriving in two batches with sampler steps in between are compared with a fresh model holding the same rows, numeric sampler state and generator.",
        ref="4/C04",
        note="Pairs are explored, not enumerated; the interaction model's transform is pinned to its current formula; observed 0/1 excluded for it.",
        technique="paired-execution differential (non-interference) monitor + training-set post-condition on add_observations",
    ),
    "C08": dict(
        cat="exploration",
        text="Trace monitor on the real Gibbs sampler: every random draw of every block (generator proxy handed to set_rng, numpy.random.normal/gamma, the multivariate-normal helper in the model's namespace) is intercepted with the full sampler state before the draw; the element it updates is inferred from the state diff, and the draw's parameters (normal mean/sd, gamma shape/rate, Q and Q^-1 b) are compared with a float64 re-derivation of the full conditional from the parameters alone; fitted values, alpha, precision bounds, block order and the exported sample are checked after every block / step; histories include reset_model() between steps and observations added in two batches; sample_mvn_from_precision's affine map is reconstructed with an injected generator.",
        ref="4/C08",
        note="Decides the distribution of each update through the parameters of the draw (deterministic), not through sampled frequencies; float32 sampler state bounds the tolerances (worst deviation observed ~1e-5 posterior sd, threshold 2e-3); default model options; self-paired drugs and treatment-free spaces excluded.",
        technique="online trace monitor: intercepted draws checked against independently derived full conditionals",
    ),
    "C19": dict(
        cat="fault_enumeration",
        text="For every listed configuration (mode, batch size 1-4, 2-7 plates, chains/chunks, publication-order seed) the real script is run crash-free against a pipeline stub and then once per failpoint hit with a kill at that hit: every executed line of the script (sys.monitoring), before/after each mkdir inside makedirs, between the unlinks of rmtree, inside every pipeline task (the stub gives each task a directory below <job>/work/xx/<hash>/ with staged inputs, writes the output there and only then publishes it) and after each directory and file the stub publishes, in an order consistent with the .nf process DAG. Half of the configurations name the output directory with characters that mean something to a file-name pattern (run[1], out[a-z], res*lts, screens[v2]/out), and the crash-free run itself is judged (bounded number of launches, steps in order, no completed step launched again or deleted). After each kill the script is rerun (deleting exactly the directory it names) until the simulation is complete and the launch log, deletion log and final tree are checked off-line against the crash-free run; continuations from an identical directory tree are explored once; pairs of kills are sampled (dense for small configurations). Every second configuration starts the script from the project directory with relative --screen / --outdir; in prospective mode a simulated operator brings the lab results of every completed batch before the next invocation (the input screen changes), so a step started before they arrive is distinguishable.",
        ref="4/C19",
        note="The real nextflow is not installed: publication behaviour is the stub's stated assumption (DAG-consistent order, atomic per file). Kill = BaseException at the failpoint (the script has no handlers).",
        technique="fault injection at every failpoint + offline checker over the recorded launch/deletion log against the crash-free run",
    ),
}

NOT_BUILT_REASON = "check not built yet in this revision (planned, see DESIGN.md section 4)"


def main():
    props = [json.loads(l)["id"] for l in open(os.path.join(ROOT, "properties.jsonl"))]
    checks = []
    for pid in props:
        if pid not in CHECKS:
            continue
        c = CHECKS[pid]
        checks.append(
            {
                "property_id": pid,
                "quick_cmd": "%s %s --tier quick" % (PY, pid),
                "thorough_cmd": "%s %s --tier thorough" % (PY, pid),
                "evidence_file": "evidence/%s.json" % pid,
                "replay_cmd_template": "%s %s --replay {path}" % (PY, pid),
                "engine": "vf",
                "level_claimed": {"category": c["cat"], "text": c["text"] + COMMON, "design_ref": c["ref"]},
                "level_note": c["note"],
                "technique": c["technique"],
            }
        )
    na = [{"property_id": p, "reason": NOT_BUILT_REASON} for p in props if p not in CHECKS]
    m = {
        "version": 1,
        "setup_cmd": "/venv/bin/python -B -c \"import sys; sys.path.insert(0,'.'); import vf.run, vf.kit, vf.gen; print('vf ok')\"",
        "hooks": {
            "guard": "BATCHIE_VERIF",
            "enable": "no in-repo hooks: all instrumentation is attached from the harness (attribute patching, sys.monitoring); checks set BATCHIE_VERIF=1 in their own process only",
            "baseline_off_cmd": "cd /repo && /venv/bin/python -m pytest -ra -q -p no:cacheprovider --timeout=900 --continue-on-collection-errors",
            "source_commits": [],
            "add_only": True,
        },
        "engines": [
            {"name": "vf", "path": "vf/", "serves_properties": [c["property_id"] for c in checks], "kind_free_text": "runtime monitoring harness: seeded workloads against the real code, post-condition/trace/differential monitors, reference models, fault injection"}
        ],
        "checks": checks,
        "not_applicable": na,
        "notes": "exit 0 held / 1 VIOLATION / 3 inconclusive. VERIF_SEED selects the seed, VERIF_REPO the tree (default /repo). known_findings.json lists open findings by mechanism.",
    }
    with open(os.path.join(ROOT, "MANIFEST.json"), "w") as f:
        json.dump(m, f, indent=1)
    print("wrote MANIFEST.json with %d checks, %d not yet claimed" % (len(checks), len(na)))


if __name__ == "__main__":
    main()
