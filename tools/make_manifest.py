#!/usr/bin/env python3
"""Regenerate MANIFEST.json from the table below (keeps it valid at all times)."""
import json
import os

ROOT = os.path.dirname(os.path.dirname(os.path.abspath(__file__)))
PY = "/venv/bin/python -B -m vf.run"

CHECKS = {
    "C01": dict(
        cat="exploration",
        text="Post-condition oracle (pure-Python dict model over (name,dose)) on every Screen constructed from thousands of seeded hostile inputs, on re-constructions with a superset mapping batchie produced, and on rejection cases; thorough also observes every Screen built by the repo's own tests. Bijection claim over all inputs: exploration with an exact oracle is what runtime monitoring can give.",
        ref="4/C01",
        note="Trusts numpy/pandas string handling; NaN doses and NUL-containing names excluded; held only on the generated cases.",
        technique="runtime post-condition monitor on Screen.__init__ + reference encoder (dict model)",
    ),
    "C15": dict(
        cat="exploration",
        text="Every index for n<=40 (quick) / n<=64 (thorough), k<=4 is unranked by the real function and re-ranked by an independent big-int rank (complete for that finite sub-space); boundary/uniform samples for n up to 5000; the real DBAL kernel's triples are intercepted and checked distinct/in-range/complete.",
        ref="4/C15",
        note="n>5000 and k>4 unexplored; rank oracle is the combinatorial number system identity.",
        technique="rank/unrank identity oracle + intercepted scorer calls",
    ),
}

NOT_BUILT_REASON = "check not built yet in this revision (planned, see DESIGN.md section 4)"


def main():
    props = [json.loads(l)["id"] for l in open(os.path.join(ROOT, "properties.jsonl"))]
    checks = []
    for pid in props:
        if pid not in CHECKS:
            continue
        c = CHECKS[pid]
        checks.append(
            {
                "property_id": pid,
                "quick_cmd": "%s %s --tier quick" % (PY, pid),
                "thorough_cmd": "%s %s --tier thorough" % (PY, pid),
                "evidence_file": "evidence/%s.json" % pid,
                "replay_cmd_template": "%s %s --replay {path}" % (PY, pid),
                "engine": "vf",
                "level_claimed": {"category": c["cat"], "text": c["text"], "design_ref": c["ref"]},
                "level_note": c["note"],
                "technique": c["technique"],
            }
        )
    na = [{"property_id": p, "reason": NOT_BUILT_REASON} for p in props if p not in CHECKS]
    m = {
        "version": 1,
        "setup_cmd": "/venv/bin/python -B -c \"import sys; sys.path.insert(0,'.'); import vf.run, vf.kit, vf.gen; print('vf ok')\"",
        "hooks": {
            "guard": "BATCHIE_VERIF",
            "enable": "no in-repo hooks: all instrumentation is attached from the harness (attribute patching, sys.monitoring); checks set BATCHIE_VERIF=1 in their own process only",
            "baseline_off_cmd": "cd /repo && /venv/bin/python -m pytest -ra -q -p no:cacheprovider --timeout=900 --continue-on-collection-errors",
            "source_commits": [],
            "add_only": True,
        },
        "engines": [
            {"name": "vf", "path": "vf/", "serves_properties": [c["property_id"] for c in checks], "kind_free_text": "runtime monitoring harness: seeded workloads against the real code, post-condition/trace/differential monitors, reference models, fault injection"}
        ],
        "checks": checks,
        "not_applicable": na,
        "notes": "exit 0 held / 1 VIOLATION / 3 inconclusive. VERIF_SEED selects the seed, VERIF_REPO the tree (default /repo). known_findings.json lists open findings by mechanism.",
    }
    with open(os.path.join(ROOT, "MANIFEST.json"), "w") as f:
        json.dump(m, f, indent=1)
    print("wrote MANIFEST.json with %d checks, %d not yet claimed" % (len(checks), len(na)))


if __name__ == "__main__":
    main()
