#!/bin/bash
# verify one agent mutant: demo passes unchanged / fails with patch, tests pass with patch, then run my check
id=$1
wt=/tmp/wt-$id
cd $wt || exit 1
git diff > /var/tmp/seeded-$id.diff
if [ ! -s /var/tmp/seeded-$id.diff ]; then cp $wt/patch.diff /var/tmp/seeded-$id.diff; fi
git checkout -q -- . 
PYTHONPATH=$wt/src timeout 900 /venv/bin/python $wt/demo_$id.py > /var/tmp/seeded-$id.demo0.log 2>&1; d0=$?
git apply /var/tmp/seeded-$id.diff || { echo "$id PATCH-FAILS"; exit 1; }
PYTHONPATH=$wt/src timeout 900 /venv/bin/python $wt/demo_$id.py > /var/tmp/seeded-$id.demo1.log 2>&1; d1=$?
PYTHONPATH=$wt/src timeout 1800 /venv/bin/python -m pytest -q -p no:cacheprovider --timeout=900 > /var/tmp/seeded-$id.tests.log 2>&1; t=$?
cd /verif
out=$(TIER=quick tools/try_patch.sh /var/tmp/seeded-$id.diff $id 2>&1)
echo "$id demo_unchanged=$d0 demo_patched=$d1 tests_rc=$t :: $(echo "$out" | head -4 | tr '\n' ' ' | cut -c1-600)"
